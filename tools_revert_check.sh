#!/bin/bash
# usage: tools_revert_check.sh <fix-commit-sha> <Cxx>... : temporarily reverts a fix commit in /repo's
# working tree, runs the quick checks (expects VIOLATION), and restores the tree.
sha=$1; shift
(
flock 9
cd /repo || exit 2
git diff --quiet || { echo "repo dirty"; exit 2; }
trap 'git -C /repo checkout -q -- .' EXIT
# several commits can be given as sha1+sha2 (reverted right to left: put the later commit last)
for one in $(echo "$sha" | tr '+' '\n' | tac); do git diff "$one^" "$one" | git apply -R || exit 2; done
for c in "$@"; do (cd /verif && ./check "$c" quick > /tmp/revert-$$.out 2>&1; code=$?; head -3 /tmp/revert-$$.out | cut -c1-260; echo "REVERT $sha $c exit=$code"; rm -f /tmp/revert-$$.out); done
) 9>/tmp/repo-patch.lock
