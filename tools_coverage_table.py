#!/usr/bin/env python3
"""Prints a markdown table of what the evidence files say each check covered (run after the checks)."""
import json, glob, sys
rows=[]
for f in sorted(glob.glob('/verif/evidence/C*.json')):
    e=json.load(open(f)); c=e['coverage']
    rows.append((e['property_id'], e['tier'], e['level'], c.get('evaluations'), c.get('distinct_nontrivial'), c.get('states','-'), c.get('transitions','-'), c.get('traces_validated_against_impl','-'), c.get('distinct_outcomes'), c.get('exhaustive'), round(e['wall_s'],1), len(c.get('known_findings_seen',[]))))
print("| id | tier | level | evaluations | distinct non-trivial | states | transitions | traces vs impl | outcomes | exhaustive | wall s | known findings |")
print("|---|---|---|---|---|---|---|---|---|---|---|---|")
for r in rows: print("| "+" | ".join(str(x) for x in r)+" |")
