#!/bin/bash
# usage: tools_seeded_confirm.sh <seed-id> <worktree> <property> [more checks...]
# Confirms a sub-agent's seeded change in its scratch worktree (suite passes with the change, demo
# fails with it and passes without it), stores it under /verif/seeded/<seed-id>/, runs our checks
# against /repo with the patch applied, restores /repo, removes the worktree.
id=$1; wt=$2; shift 2; checks="$@"
out=/verif/seeded/$id; mkdir -p $out
log=$out/confirm.log; : > $log
cd $wt || exit 2
export CARGO_TARGET_DIR=$wt/target
[ -f patch.diff ] || git diff -- quil-rs/src > patch.diff
cp patch.diff $out/patch.diff; cp demo.rs $out/demo.rs 2>/dev/null || cp quil-rs/tests/seeded_demo.rs $out/demo.rs
# state: patch applied?  make sure
git checkout -q -- quil-rs/src; git apply patch.diff || { echo "patch does not apply" | tee -a $log; exit 2; }
cp $out/demo.rs quil-rs/tests/seeded_demo.rs
echo "== demo WITH change" >> $log
cargo test --offline --test seeded_demo 2>&1 | grep -E "^test result|^test .* (ok|FAILED)|error" | head -20 >> $log
with=$(grep -c "test result: FAILED" $log)
mv quil-rs/tests/seeded_demo.rs /tmp/seeded_demo_$id.rs
echo "== suite WITH change" >> $log
cargo nextest run --workspace --no-fail-fast --tool-config-file pb:/w/lib/nextest.toml --profile pb --test-threads 8 --offline 2>&1 | grep -E "Summary|FAIL" | sort | uniq | head -10 >> $log
suite=$(grep -c "2981 passed" $log)
git checkout -q -- quil-rs/src
mv /tmp/seeded_demo_$id.rs quil-rs/tests/seeded_demo.rs
echo "== demo WITHOUT change" >> $log
cargo test --offline --test seeded_demo 2>&1 | grep -E "^test result|error" | head -5 >> $log
without=$(tail -3 $log | grep -c "test result: ok")
echo "RESULT demo_fails_with=$with suite_passes_with=$suite demo_passes_without=$without" >> $log
# our checks against /repo
( flock 9
  git -C /repo diff --quiet || { echo "repo dirty, skipping checks" >> $log; exit 2; }
  git -C /repo apply $out/patch.diff || { echo "patch does not apply to /repo" >> $log; exit 2; }
  for c in $checks; do echo "== check $c quick (patched /repo)" >> $log; (cd /verif && timeout 900 ./check $c quick 2>&1 | cut -c1-300 | head -14 >> $log; echo "exit=${PIPESTATUS[0]}" >> $log); done
  git -C /repo checkout -- .
) 9>/tmp/repo-patch.lock
cd /; git -C /repo worktree remove --force $wt
tail -40 $log
