#!/usr/bin/env python3
"""Regenerates /verif/MANIFEST.json from the table below and `mc list` (which properties have a built check)."""
import json, subprocess, sys
built = {}
try:
    out = subprocess.run(['/verif/target/mc/mc', 'list'], capture_output=True, text=True, check=True).stdout
    for l in out.splitlines():
        i, level, engine = l.split()
        built[i] = (level, engine)
except Exception as e:
    print("cannot run mc list:", e); sys.exit(2)

# id -> (design_ref, technique, level text, level note)
T = {}
def t(i, tech, text, note): T[i] = ("DESIGN.md §4 " + i, tech, text, note)
meta = json.load(open('/verif/manifest_meta.json'))
for i, m in meta.items(): t(i, m['technique'], m['text'], m['note'])

props = [json.loads(l) for l in open('/verif/properties.jsonl')]
checks, na = [], []
for p in props:
    i = p['id']
    if i in built and i in T:
        level, engine = built[i]
        ref, tech, text, note = T[i]
        checks.append({
            "property_id": i,
            "quick_cmd": f"./check {i} quick",
            "thorough_cmd": f"./check {i} thorough",
            "evidence_file": f"/verif/evidence/{i}.json",
            "replay_cmd_template": "./check replay {path}",
            "engine": engine,
            "level_claimed": {"category": level, "text": text, "design_ref": ref},
            "level_note": note,
            "technique": tech,
        })
    else:
        na.append({"property_id": i, "reason": meta.get(i, {}).get('na_reason', "check not built yet in this round (planned: bounded exhaustive exploration, see DESIGN.md §4 " + i + ")")})
engines = {}
for i, (level, engine) in built.items():
    engines.setdefault(engine, []).append(i)
ENG = {
 "sweep": "E1+E2: bounded exhaustive prefix-tree / mixed-radix enumeration of inputs or operation sequences, run on the real code in 16 worker processes, every case checked against a reference model or invariant",
 "hist": "E3: explicit-state search (stateright BFS/DFS with state matching) over histories of real Program API operations; the state is a live quil_rs::Program",
 "queue": "E1 over the hooked DependencyQueue plus E4: TLC-explored TLA+ model whose every state is replayed on the real queue (conformance)",
 "child": "E2: one child process per case with watchdog and 2 MiB worker stack; abnormal exits are observations",
}
m = {
 "version": 1,
 "setup_cmd": "./check setup",
 "hooks": {
   "guard": "rigetti_quil_rs_verif",
   "enable": "RUSTFLAGS=\"--cfg rigetti_quil_rs_verif\" (set by ./check; builds /verif/mc against /repo/quil-rs into /verif/target)",
   "baseline_off_cmd": "cd /repo && cargo nextest run --workspace --no-fail-fast --tool-config-file pb:/w/lib/nextest.toml --profile pb --test-threads 8 --offline",
   "source_commits": subprocess.run(['git','-C','/repo','log','--format=%H','--grep=^verif hook'], capture_output=True, text=True).stdout.split(),
   "add_only": True,
 },
 "engines": [{"name": k, "path": "/verif/mc/src/engine.rs", "serves_properties": sorted(v), "kind_free_text": ENG.get(k, k)} for k, v in sorted(engines.items())],
 "checks": checks,
 "not_applicable": na,
 "notes": "One binary (/verif/mc) serves every check; ./check builds it offline against /repo's current working tree with the hook guard on. Known findings: /verif/known_findings.json. Exit 2 + MACHINERY-ERROR = harness failure, never a verdict.",
}
json.dump(m, open('/verif/MANIFEST.json', 'w'), indent=1)
print(f"MANIFEST.json: {len(checks)} checks, {len(na)} not_applicable")
