#!/usr/bin/env python3
"""Regenerates /verif/MANIFEST.json from `mc list-json` (the built checks, their level, engine, rule
and assumptions) and manifest_meta.json (per-property technique wording / not-applicable reasons)."""
import json, subprocess, sys
try:
    out = subprocess.run(['/verif/target/mc/mc', 'list-json'], capture_output=True, text=True, check=True).stdout
    built = {p['id']: p for p in json.loads(out)}
except Exception as e:
    print("cannot run mc list-json:", e); sys.exit(2)
meta = json.load(open('/verif/manifest_meta.json'))
TECH = {
 "sweep": "bounded exhaustive enumeration (every input / operation sequence up to the stated bound over a small alphabet) run on the real code in 16 worker processes, each case checked against a reference model or invariant; no sampling",
 "hist": "explicit-state model checking (stateright DFS/BFS with state matching) of a transition system whose states are live quil_rs::Program values and whose transitions call the real methods; oracle evaluated in every reachable state",
 "queue": "bounded exhaustive enumeration of programs through the real scheduler plus exhaustive exploration of the hooked DependencyQueue (all access sequences up to a bound); both tiers run TLC on a TLA+ model of the queue (tla/DependencyQueue.tla, five invariants) and replay every state of TLC's dumped state graph on the real queue",
 "child": "bounded exhaustive enumeration with process isolation: every case expanded on a 2 MiB-stack thread in a worker process, abnormal exits and hangs attributed to the case",
}
props = [json.loads(l) for l in open('/verif/properties.jsonl')]
checks, na = [], []
for p in props:
    i = p['id']
    if i in built:
        b = built[i]; m = meta.get(i, {})
        lvl = b['level']
        text = m.get('text') or (("model checking" if lvl == "model_checking" else "bounded exhaustive exploration") + ": " + b['rule'])
        note = m.get('note') or ("bounds as stated in the rule (quick / thorough); trusted base: the reference model in /verif/mc/src (" + "; ".join(b['assumptions']) + "), rustc, the harness engine")
        checks.append({
            "property_id": i,
            "quick_cmd": f"./check {i} quick",
            "thorough_cmd": f"./check {i} thorough",
            "evidence_file": f"/verif/evidence/{i}.json",
            "replay_cmd_template": "./check replay {path}",
            "engine": b['engine'],
            "level_claimed": {"category": lvl, "text": text, "design_ref": "DESIGN.md §4 " + i},
            "level_note": note,
            "technique": m.get('technique') or TECH[b['engine']],
        })
    else:
        na.append({"property_id": i, "reason": meta.get(i, {}).get('na_reason', "check not built yet in this round (planned: bounded exhaustive exploration, see DESIGN.md §4 " + i + ")")})
engines = {}
for i, b in built.items():
    engines.setdefault(b['engine'], []).append(i)
m = {
 "version": 1,
 "setup_cmd": "./check setup",
 "hooks": {
   "guard": "rigetti_quil_rs_verif",
   "enable": "RUSTFLAGS=\"--cfg rigetti_quil_rs_verif\" (set by ./check; builds /verif/mc against /repo/quil-rs into /verif/target)",
   "baseline_off_cmd": "cd /repo && cargo nextest run --workspace --no-fail-fast --tool-config-file pb:/w/lib/nextest.toml --profile pb --test-threads 8 --offline",
   "source_commits": subprocess.run(['git','-C','/repo','log','--format=%H','--grep=^verif hook'], capture_output=True, text=True).stdout.split(),
   "add_only": True,
 },
 "engines": [{"name": k, "path": "/verif/mc/src/engine.rs", "serves_properties": sorted(v), "kind_free_text": TECH.get(k, k)} for k, v in sorted(engines.items())],
 "checks": checks,
 "not_applicable": na,
 "notes": "One binary (/verif/mc, built into /verif/target) serves every check; ./check builds it offline against /repo's current working tree with the hook guard on. Known findings: /verif/known_findings.json (never written at run time). Exit 2 + MACHINERY-ERROR = harness failure, never a verdict. Seeded property-breaking changes and which checks catch them: /verif/seeded/ and DESIGN.md §6.",
}
json.dump(m, open('/verif/MANIFEST.json', 'w'), indent=1)
print(f"MANIFEST.json: {len(checks)} checks, {len(na)} not_applicable")
