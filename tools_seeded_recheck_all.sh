#!/bin/bash
# Re-applies every stored seeded change to /repo (one at a time, under the patch lock), runs the quick
# checks its meta.json lists under caught_by, restores /repo.  Output: /verif/seeded/recheck.log with one
# "RECHECK <seed> <check> exit=<code>" line per pair; every line must say exit=1.
out=/verif/seeded/recheck.log; : > $out
for d in /verif/seeded/S*/; do
  s=$(basename $d)
  [ -n "$1" ] && [[ "$s" < "$1" ]] && continue
  checks=$(python3 -c "
import json,re,sys
m=json.load(open('$d/meta.json'))
ids=[]
for c in m.get('caught_by',[]):
    for i in re.findall(r'C\d\d', c.split('(')[0]):
        if i not in ids: ids.append(i)
print(' '.join(ids))")
  ( flock 9
    git -C /repo diff --quiet || { echo "RECHECK $s repo-dirty" >> $out; exit 2; }
    git -C /repo apply $d/patch.diff 2>/dev/null || { echo "RECHECK $s patch-does-not-apply" >> $out; exit 2; }
    for c in $checks; do (cd /verif && timeout 1500 ./check $c quick > /tmp/recheck-$$.out 2>&1; echo "RECHECK $s $c exit=$? $(grep -c '^VIOLATION' /tmp/recheck-$$.out) violation lines" >> $out; rm -f /tmp/recheck-$$.out); done
    git -C /repo checkout -- .
  ) 9>/tmp/repo-patch.lock
done
echo "pairs: $(grep -c '^RECHECK' $out)  exit=1: $(grep -c 'exit=1 ' $out)" >> $out
