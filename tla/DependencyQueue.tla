------------------------- MODULE DependencyQueue -------------------------
(* Model of quil-rs' scheduling DependencyQueue (one queue = one resource).
   Memory regions: Read is a read; Write and Capture are writes; no initial writer.
   Frames: Blocking is a read; Using is a write; BlockStart (node 0) is the initial writer. *)
EXTENDS Naturals, Sequences, FiniteSets
CONSTANTS MaxLen, Kinds, WriteKinds, HasInitialWriter
ASSUME WriteKinds \subseteq Kinds
VARIABLES hist, write, reads, deps
vars == <<hist, write, reads, deps>>

Init == /\ hist = <<>>
        /\ write = IF HasInitialWriter THEN {0} ELSE {}
        /\ reads = {}
        /\ deps = <<>>

Access(k) ==
  LET n == Len(hist) + 1 IN
  /\ Len(hist) < MaxLen
  /\ hist' = Append(hist, k)
  /\ IF k \in WriteKinds
       THEN /\ deps' = Append(deps, write \cup reads)
            /\ write' = {n}
            /\ reads' = {}
       ELSE /\ deps' = Append(deps, write)
            /\ reads' = reads \cup {n}
            /\ write' = write

Next == \E k \in Kinds : Access(k)
Spec == Init /\ [][Next]_vars

IsWrite(i) == i = 0 \/ hist[i] \in WriteKinds
Nodes == 1..Len(hist)

RECURSIVE Anc(_, _)
Anc(j, fuel) == IF j = 0 \/ fuel = 0 THEN {}
                ELSE deps[j] \cup UNION { Anc(i, fuel - 1) : i \in deps[j] }

(* every conflicting pair is ordered *)
SequentiallyConsistent ==
  \A i \in Nodes : \A j \in Nodes :
     (i < j /\ (IsWrite(i) \/ IsWrite(j))) => i \in Anc(j, Len(hist))
(* every reported dependency joins a conflicting pair, points backwards, never at itself *)
Justified ==
  \A j \in Nodes : \A i \in deps[j] : i < j /\ (IsWrite(i) \/ IsWrite(j))
(* with an initial writer everything depends on node 0 *)
Rooted == HasInitialWriter => \A j \in Nodes : 0 \in Anc(j, Len(hist))
(* pending = exactly the nodes nobody depends on yet (these get the edge to the block end) *)
Pending == write \cup reads
PendingExact ==
  /\ \A i \in Nodes : (~ \E j \in Nodes : i \in deps[j]) => i \in Pending
  /\ Pending \subseteq Nodes \cup {0}
  /\ \A i \in reads : ~ \E j \in Nodes : i \in deps[j]
TypeOK == /\ Cardinality(write) <= 1 /\ reads \subseteq Nodes /\ Len(deps) = Len(hist)
=============================================================================
