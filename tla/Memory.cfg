CONSTANTS
  MaxLen = 7
  Kinds = {"R", "W", "C"}
  WriteKinds = {"W", "C"}
  HasInitialWriter = FALSE
SPECIFICATION Spec
INVARIANTS TypeOK SequentiallyConsistent Justified Rooted PendingExact
CHECK_DEADLOCK FALSE
