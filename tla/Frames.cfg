CONSTANTS
  MaxLen = 9
  Kinds = {"B", "U"}
  WriteKinds = {"U"}
  HasInitialWriter = TRUE
SPECIFICATION Spec
INVARIANTS TypeOK SequentiallyConsistent Justified Rooted PendingExact
CHECK_DEADLOCK FALSE
