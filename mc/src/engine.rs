//! Engines E1 (bounded exhaustive sweep) and E2 (process shards) plus evidence, findings and
//! replay plumbing.  See DESIGN.md section 2.
//!
//! A property is a [`PropDef`]: a `run` function that enumerates its whole bounded space and
//! evaluates the oracle on the cases `Ctx::take` hands to this shard, and a `replay` function
//! that re-evaluates one recorded case with no explorer.

use serde_json::{json, Map, Value};
use std::collections::{BTreeMap, HashSet};
use std::hash::{Hash, Hasher};
use std::io::Write;
use std::path::{Path, PathBuf};
use std::time::{Duration, Instant};

/// root of the verification tree: $VERIF_DIR (set by ./check to its own directory), default /verif
pub fn verif_dir() -> String {
    std::env::var("VERIF_DIR").unwrap_or_else(|_| "/verif".to_string())
}

#[derive(Clone, Copy, PartialEq, Eq, Debug)]
pub enum Tier {
    Quick,
    Thorough,
}
impl Tier {
    pub fn name(self) -> &'static str {
        match self {
            Tier::Quick => "quick",
            Tier::Thorough => "thorough",
        }
    }
    pub fn parse(s: &str) -> Tier {
        match s {
            "thorough" => Tier::Thorough,
            _ => Tier::Quick,
        }
    }
    /// pick a bound by tier
    pub fn pick<T>(self, quick: T, thorough: T) -> T {
        match self {
            Tier::Quick => quick,
            Tier::Thorough => thorough,
        }
    }
}

#[derive(Clone, Debug)]
pub struct Viol {
    pub clause: String,
    pub fingerprint: String,
    pub case: Value,
    pub detail: String,
}

pub fn viol(clause: &str, fingerprint: impl Into<String>, case: Value, detail: impl Into<String>) -> Viol {
    Viol { clause: clause.to_string(), fingerprint: fingerprint.into(), case, detail: detail.into() }
}

#[derive(Default, Clone)]
pub struct VioClass {
    pub clause: String,
    pub count: u64,
    /// (size, case, detail), smallest first, at most 3
    pub witnesses: Vec<(usize, Value, String)>,
}

pub struct PropDef {
    pub id: &'static str,
    pub level: &'static str,
    pub engine: &'static str,
    pub rule: &'static str,
    pub assumptions: &'static [&'static str],
    pub run: fn(&mut Ctx),
    pub replay: fn(&Value) -> Vec<Viol>,
    /// wall-clock cap per shard in seconds (quick, thorough)
    pub caps: (u64, u64),
}

pub fn h64<T: Hash + ?Sized>(t: &T) -> u64 {
    // FNV-1a based deterministic hasher (std's DefaultHasher::new() is deterministic too, but
    // make the independence from process seeds explicit)
    struct Fnv(u64);
    impl Hasher for Fnv {
        fn finish(&self) -> u64 {
            // final avalanche
            let mut x = self.0;
            x ^= x >> 33;
            x = x.wrapping_mul(0xff51afd7ed558ccd);
            x ^= x >> 33;
            x = x.wrapping_mul(0xc4ceb9fe1a85ec53);
            x ^= x >> 33;
            x
        }
        fn write(&mut self, bytes: &[u8]) {
            for b in bytes {
                self.0 ^= *b as u64;
                self.0 = self.0.wrapping_mul(0x100000001b3);
            }
        }
    }
    let mut h = Fnv(0xcbf29ce484222325);
    t.hash(&mut h);
    h.finish()
}

enum Mode {
    Run,
    /// print the case with this index and stop
    Describe(u64),
}

pub struct Ctx {
    pub tier: Tier,
    pub shard: u64,
    pub nshards: u64,
    pub seed: u64,
    mode: Mode,
    skip: HashSet<u64>,
    counter: u64,
    pub evals: u64,
    pub states: u64,
    pub transitions: u64,
    pub traces: u64,
    nontrivial: HashSet<u64>,
    state_keys: HashSet<u64>,
    pub outcomes: BTreeMap<String, u64>,
    samples: Vec<Value>,
    last_case: Option<Value>,
    pub viols: BTreeMap<String, VioClass>,
    pub extra: Map<String, Value>,
    deadline: Instant,
    /// the cap is measured in CPU seconds of this worker (load on the machine must not change what a
    /// tier covers); `deadline` is only a wall-clock backstop at ten times the cap
    cpu_cap_s: f64,
    cpu_start_s: f64,
    pub capped: bool,
    progress: *mut u64,
    start: Instant,
}

impl Ctx {
    /// Claim the next case index.  Returns true if this shard must evaluate the case.
    /// `describe` lazily renders the case (used for samples, crash reports).
    #[inline]
    pub fn take(&mut self, describe: impl FnOnce() -> Value) -> bool {
        let k = self.counter;
        self.counter += 1;
        if k % self.nshards != self.shard {
            return false;
        }
        match self.mode {
            Mode::Describe(want) => {
                if k == want {
                    println!("{}", describe());
                    std::process::exit(0);
                }
                return false;
            }
            Mode::Run => {}
        }
        if !self.skip.is_empty() && self.skip.contains(&k) {
            return false;
        }
        if self.capped {
            return false;
        }
        if (self.evals & 0xff) == 0 && (cpu_seconds() - self.cpu_start_s > self.cpu_cap_s || Instant::now() > self.deadline) {
            self.capped = true;
            self.extra.insert("capped_at_index".into(), json!(k));
            return false;
        }
        if !self.progress.is_null() {
            unsafe { std::ptr::write_volatile(self.progress, k + 1) };
        }
        self.evals += 1;
        let e = self.evals;
        if e <= 2 || (e & (e - 1)) == 0 && e >= 64 && self.samples.len() < 12 {
            let d = describe();
            self.samples.push(d);
        }
        true
    }
    /// like take, but every shard evaluates it (cheap global cases); counted once (shard 0)
    /// mark that the worker is no longer inside an enumerated case (a crash from here on is a
    /// harness failure, not an observation about the last case)
    pub fn outside_case(&mut self) {
        if !self.progress.is_null() {
            unsafe { std::ptr::write_volatile(self.progress, u64::MAX - 1) };
        }
    }
    pub fn is_capped(&self) -> bool {
        self.capped
    }
    pub fn nontrivial<T: Hash + ?Sized>(&mut self, key: &T) {
        self.nontrivial.insert(h64(key));
    }
    pub fn nontrivial_h(&mut self, h: u64) {
        self.nontrivial.insert(h);
    }
    /// record a state of a transition system by canonical key; returns true if new *in this shard*
    pub fn state<T: Hash + ?Sized>(&mut self, key: &T) -> bool {
        self.state_keys.insert(h64(key))
    }
    pub fn transition(&mut self) {
        self.transitions += 1;
    }
    pub fn outcome(&mut self, label: &str) {
        if let Some(c) = self.outcomes.get_mut(label) {
            *c += 1;
        } else {
            self.outcomes.insert(label.to_string(), 1);
        }
    }
    pub fn sample(&mut self, v: Value) {
        if self.samples.len() < 16 {
            self.samples.push(v);
        }
    }
    pub fn set_last(&mut self, v: Value) {
        self.last_case = Some(v);
    }
    pub fn bound(&mut self, key: &str, v: Value) {
        self.extra.insert(key.to_string(), v);
    }
    pub fn report(&mut self, v: Viol) {
        let size = v.case.to_string().len();
        let c = self.viols.entry(v.fingerprint.clone()).or_default();
        c.clause = v.clause;
        c.count += 1;
        c.witnesses.push((size, v.case, v.detail));
        c.witnesses.sort_by_key(|w| w.0);
        c.witnesses.truncate(3);
    }
    pub fn report_all(&mut self, vs: Vec<Viol>) {
        for v in vs {
            self.report(v);
        }
    }
    pub fn elapsed(&self) -> f64 {
        self.start.elapsed().as_secs_f64()
    }
}

// ---------------------------------------------------------------------------------------------
// panic capture

thread_local! {
    static LAST_PANIC: std::cell::RefCell<String> = const { std::cell::RefCell::new(String::new()) };
}

pub fn install_quiet_panic_hook() {
    if std::env::var("VERIF_LOUD").is_ok() {
        return;
    }
    std::panic::set_hook(Box::new(|info| {
        let loc = info
            .location()
            .map(|l| {
                let f = l.file();
                let f = f.rsplit_once("quil-rs/src/").map(|x| x.1).unwrap_or(f);
                format!("{}:{}", f, l.line())
            })
            .unwrap_or_default();
        let msg = if let Some(s) = info.payload().downcast_ref::<&str>() {
            s.to_string()
        } else if let Some(s) = info.payload().downcast_ref::<String>() {
            s.clone()
        } else {
            String::new()
        };
        let mut msg: String = msg.chars().take(80).collect();
        // strip volatile numbers from the message
        msg = msg.chars().map(|c| if c.is_ascii_digit() { '#' } else { c }).collect();
        LAST_PANIC.with(|p| *p.borrow_mut() = format!("{loc} {msg}"));
    }));
}

/// Run `f`, turning a panic into `Err("<file>:<line> <message>")`.
pub fn catch<T>(f: impl FnOnce() -> T) -> Result<T, String> {
    match std::panic::catch_unwind(std::panic::AssertUnwindSafe(f)) {
        Ok(v) => Ok(v),
        Err(_) => Err(LAST_PANIC.with(|p| p.borrow().clone())),
    }
}

// ---------------------------------------------------------------------------------------------
// worker side

fn run_dir(id: &str, tier: Tier) -> PathBuf {
    PathBuf::from(format!("{}/target/run/{id}-{}", verif_dir(), tier.name()))
}

/// CPU time consumed by this process so far (all threads), in seconds
pub fn cpu_seconds() -> f64 {
    let mut ts = libc::timespec { tv_sec: 0, tv_nsec: 0 };
    unsafe { libc::clock_gettime(libc::CLOCK_PROCESS_CPUTIME_ID, &mut ts) };
    ts.tv_sec as f64 + ts.tv_nsec as f64 * 1e-9
}

pub fn worker_main(def: &PropDef, tier: Tier, shard: u64, nshards: u64, seed: u64, skip: Vec<u64>, describe: Option<u64>) {
    install_quiet_panic_hook();
    let dir = run_dir(def.id, tier);
    let cap = tier.pick(def.caps.0, def.caps.1);
    let cap = std::env::var("VERIF_CAP_S").ok().and_then(|s| s.parse().ok()).unwrap_or(cap);
    // progress marker: mmap a shared file so the parent can read the index of a crashing case
    let mut progress: *mut u64 = std::ptr::null_mut();
    if describe.is_none() {
        let p = dir.join(format!("shard-{shard}.progress"));
        if let Ok(f) = std::fs::OpenOptions::new().read(true).write(true).create(true).truncate(true).open(&p) {
            let _ = f.set_len(8);
            use std::os::unix::io::AsRawFd;
            let m = unsafe {
                libc::mmap(std::ptr::null_mut(), 8, libc::PROT_READ | libc::PROT_WRITE, libc::MAP_SHARED, f.as_raw_fd(), 0)
            };
            if m != libc::MAP_FAILED {
                progress = m as *mut u64;
                unsafe { std::ptr::write_volatile(progress, 0) };
            }
        }
        // address-space limit: a runaway allocation becomes a crash observation, not an OOM of the box
        let lim = libc::rlimit { rlim_cur: 6 << 30, rlim_max: libc::RLIM_INFINITY };
        unsafe { libc::setrlimit(libc::RLIMIT_AS, &lim) };
    }
    let mut ctx = Ctx {
        tier,
        shard,
        nshards,
        seed,
        mode: match describe {
            Some(k) => Mode::Describe(k),
            None => Mode::Run,
        },
        skip: skip.into_iter().collect(),
        counter: 0,
        evals: 0,
        states: 0,
        transitions: 0,
        traces: 0,
        nontrivial: HashSet::new(),
        state_keys: HashSet::new(),
        outcomes: BTreeMap::new(),
        samples: vec![],
        last_case: None,
        viols: BTreeMap::new(),
        extra: Map::new(),
        deadline: Instant::now() + Duration::from_secs(cap * 10),
        cpu_cap_s: cap as f64,
        cpu_start_s: cpu_seconds(),
        capped: false,
        progress,
        start: Instant::now(),
    };
    if let Err(p) = catch(|| (def.run)(&mut ctx)) {
        eprintln!("harness panic outside a guarded subject call: {p}");
        std::process::exit(101);
    }
    if describe.is_some() {
        println!("null");
        return;
    }
    if !ctx.progress.is_null() {
        unsafe { std::ptr::write_volatile(ctx.progress, u64::MAX) };
    }
    if let Some(l) = ctx.last_case.take() {
        ctx.samples.push(l);
    }
    // write results
    let viols: Vec<Value> = ctx
        .viols
        .iter()
        .map(|(fp, c)| {
            json!({"fingerprint": fp, "clause": c.clause, "count": c.count,
                "witnesses": c.witnesses.iter().map(|w| json!({"case": w.1, "detail": w.2})).collect::<Vec<_>>()})
        })
        .collect();
    let out = json!({
        "shard": shard, "evals": ctx.evals, "total_indices": ctx.counter, "states": ctx.states,
        "transitions": ctx.transitions, "traces": ctx.traces, "outcomes": ctx.outcomes,
        "samples": ctx.samples, "viols": viols, "extra": ctx.extra, "capped": ctx.capped,
        "wall_s": ctx.start.elapsed().as_secs_f64(),
    });
    let mut hb: Vec<u8> = Vec::with_capacity(ctx.nontrivial.len() * 8);
    for h in &ctx.nontrivial {
        hb.extend_from_slice(&h.to_le_bytes());
    }
    std::fs::write(dir.join(format!("shard-{shard}.h")), hb).expect("write hashes");
    let mut sb: Vec<u8> = Vec::with_capacity(ctx.state_keys.len() * 8);
    for h in &ctx.state_keys {
        sb.extend_from_slice(&h.to_le_bytes());
    }
    std::fs::write(dir.join(format!("shard-{shard}.s")), sb).expect("write states");
    std::fs::write(dir.join(format!("shard-{shard}.json")), out.to_string()).expect("write result");
}

// ---------------------------------------------------------------------------------------------
// parent side

struct ShardRes {
    json: Value,
    crashes: Vec<(u64, String)>,
}

fn read_u64s(p: &Path) -> Vec<u64> {
    std::fs::read(p)
        .map(|b| b.chunks_exact(8).map(|c| u64::from_le_bytes(c.try_into().unwrap())).collect())
        .unwrap_or_default()
}

fn exit_desc(st: &std::process::ExitStatus) -> String {
    use std::os::unix::process::ExitStatusExt;
    if let Some(s) = st.signal() {
        format!("signal:{s}")
    } else {
        format!("exit:{}", st.code().unwrap_or(-1))
    }
}

fn run_one_shard(def: &PropDef, tier: Tier, shard: u64, nshards: u64, seed: u64) -> Result<ShardRes, String> {
    let exe = std::env::current_exe().map_err(|e| e.to_string())?;
    let dir = run_dir(def.id, tier);
    let mut skip: Vec<u64> = vec![];
    let mut crashes = vec![];
    loop {
        let _ = std::fs::remove_file(dir.join(format!("shard-{shard}.json")));
        let skip_s = skip.iter().map(|k| k.to_string()).collect::<Vec<_>>().join(",");
        let mut child = std::process::Command::new(&exe)
            .args(["worker", def.id, tier.name(), &shard.to_string(), &nshards.to_string(), &seed.to_string(), &skip_s])
            .stdout(std::process::Stdio::null())
            .stderr(std::process::Stdio::piped())
            .spawn()
            .map_err(|e| format!("spawn: {e}"))?;
        // watchdog: the worker stops by itself at its cap; a worker that is still alive well after
        // that is stuck inside one case (a hang is an observation about that case)
        let cap = tier.pick(def.caps.0, def.caps.1);
        let cap = std::env::var("VERIF_CAP_S").ok().and_then(|s| s.parse().ok()).unwrap_or(cap);
        let t0 = Instant::now();
        // hang detection is in *CPU seconds of the worker* since it entered the current case, so that
        // a loaded machine cannot turn a slow case into a timeout (wall clock is only a backstop)
        let cpu_of = |pid: u32| -> Option<f64> {
            let st = std::fs::read_to_string(format!("/proc/{pid}/stat")).ok()?;
            let rest = st.rsplit_once(") ")?.1;
            let f: Vec<&str> = rest.split(' ').collect();
            let ticks: f64 = f.get(11)?.parse::<f64>().ok()? + f.get(12)?.parse::<f64>().ok()?;
            Some(ticks / 100.0)
        };
        let limit_cpu = if def.id == "C18" { 15.0 } else { 60.0 };
        let mut last_progress = (0u64, Instant::now(), cpu_of(child.id()).unwrap_or(0.0));
        let mut hung = false;
        loop {
            match child.try_wait() {
                Ok(Some(_)) => break,
                Ok(None) => {}
                Err(e) => return Err(format!("wait: {e}")),
            }
            let k = read_u64s(&dir.join(format!("shard-{shard}.progress"))).first().copied().unwrap_or(0);
            let cpu = cpu_of(child.id()).unwrap_or(last_progress.2);
            if k != last_progress.0 {
                last_progress = (k, Instant::now(), cpu);
            }
            let in_case = k != 0 && k < u64::MAX - 1;
            let stuck_cpu = in_case && cpu - last_progress.2 > limit_cpu;
            let stuck_wall = in_case && last_progress.1.elapsed() > Duration::from_secs_f64(limit_cpu * 20.0);
            if stuck_cpu || stuck_wall || t0.elapsed() > Duration::from_secs(cap * 4 + 600) {
                let _ = child.kill();
                hung = true;
                break;
            }
            std::thread::sleep(Duration::from_millis(20));
        }
        let st = child.wait_with_output().map_err(|e| format!("wait: {e}"))?;
        if st.status.success() && !hung {
            let txt = std::fs::read_to_string(dir.join(format!("shard-{shard}.json"))).map_err(|e| format!("shard {shard} result: {e}"))?;
            let json: Value = serde_json::from_str(&txt).map_err(|e| e.to_string())?;
            return Ok(ShardRes { json, crashes });
        }
        // abnormal exit: which case?
        let k = read_u64s(&dir.join(format!("shard-{shard}.progress"))).first().copied().unwrap_or(0);
        let err_tail: String = String::from_utf8_lossy(&st.stderr).lines().rev().take(3).collect::<Vec<_>>().join(" | ");
        if k == 0 || k >= u64::MAX - 1 {
            return Err(format!("worker {shard} died outside a case ({}): {err_tail}", exit_desc(&st.status)));
        }
        let idx = k - 1;
        let what = if hung {
            "timeout".to_string()
        } else if err_tail.contains("overflowed its stack") {
            "stack-overflow".to_string()
        } else if err_tail.contains("memory allocation") {
            "alloc-failure".to_string()
        } else {
            exit_desc(&st.status)
        };
        crashes.push((idx, what));
        skip.push(idx);
        if crashes.len() > 40 {
            return Err(format!("worker {shard}: more than 40 crashing cases, giving up (last: {err_tail})"));
        }
    }
}

fn describe_case(def: &PropDef, tier: Tier, idx: u64, nshards: u64) -> Value {
    let exe = std::env::current_exe().unwrap();
    let shard = idx % nshards;
    let out = std::process::Command::new(exe)
        .args(["describe", def.id, tier.name(), &shard.to_string(), &nshards.to_string(), &idx.to_string()])
        .output();
    match out {
        Ok(o) => serde_json::from_slice(&o.stdout).unwrap_or(json!({"index": idx})),
        Err(_) => json!({"index": idx}),
    }
}

#[derive(Clone)]
pub struct Known {
    pub property: String,
    pub status: String,
    pub fingerprint: String,
    pub what: String,
}

pub fn load_known() -> Vec<Known> {
    let p = format!("{}/known_findings.json", verif_dir());
    let Ok(txt) = std::fs::read_to_string(&p) else { return vec![] };
    let v: Value = serde_json::from_str(&txt).unwrap_or_else(|e| {
        eprintln!("MACHINERY-ERROR: known_findings.json does not parse: {e}");
        std::process::exit(2)
    });
    v["entries"]
        .as_array()
        .map(|a| {
            a.iter()
                .map(|e| Known {
                    property: e["property"].as_str().unwrap_or("").into(),
                    status: e["status"].as_str().unwrap_or("").into(),
                    fingerprint: e["fingerprint"].as_str().unwrap_or("").into(),
                    what: e["what"].as_str().unwrap_or("").into(),
                })
                .collect()
        })
        .unwrap_or_default()
}

fn fp_file(id: &str, fp: &str) -> String {
    format!("{}/replays/{id}-{:016x}.json", verif_dir(), h64(fp))
}

/// replay a case in a fresh child process; returns the fingerprints observed (or crash marker)
pub fn replay_in_child(id: &str, case: &Value) -> Result<Vec<String>, String> {
    let exe = std::env::current_exe().map_err(|e| e.to_string())?;
    let dir = PathBuf::from(format!("{}/target/run", verif_dir()));
    let _ = std::fs::create_dir_all(&dir);
    let p = dir.join(format!("replay-{}-{:x}.json", std::process::id(), h64(&case.to_string())));
    std::fs::write(&p, json!({"property": id, "case": case}).to_string()).map_err(|e| e.to_string())?;
    let mut child = std::process::Command::new(exe)
        .args(["replay-quiet", p.to_str().unwrap()])
        .stdout(std::process::Stdio::piped())
        .stderr(std::process::Stdio::null())
        .spawn()
        .map_err(|e| e.to_string())?;
    // watchdog 60 s
    let t0 = Instant::now();
    loop {
        match child.try_wait() {
            Ok(Some(_)) => break,
            Ok(None) => {
                if t0.elapsed() > Duration::from_secs(60) {
                    let _ = child.kill();
                    let _ = child.wait();
                    let _ = std::fs::remove_file(&p);
                    return Ok(vec!["crash:timeout".into()]);
                }
                std::thread::sleep(Duration::from_millis(5));
            }
            Err(e) => return Err(e.to_string()),
        }
    }
    let o = child.wait_with_output().map_err(|e| e.to_string())?;
    let _ = std::fs::remove_file(&p);
    if !o.status.success() && o.status.code() != Some(1) {
        return Ok(vec![format!("crash:{}", exit_desc(&o.status))]);
    }
    let mut fps = vec![];
    for l in String::from_utf8_lossy(&o.stdout).lines() {
        if let Some(f) = l.strip_prefix("FP ") {
            fps.push(f.to_string());
        }
        if l.starts_with("CL ") {
            fps.push(l.to_string());
        }
    }
    Ok(fps)
}

pub fn parent_main(def: &PropDef, tier: Tier) -> i32 {
    let t0 = Instant::now();
    let seed: u64 = std::env::var("VERIF_SEED").ok().and_then(|s| s.parse().ok()).unwrap_or(0);
    let nshards: u64 = std::env::var("VERIF_SHARDS").ok().and_then(|s| s.parse().ok()).unwrap_or(16);
    // explicit-state searches are multi-threaded inside one worker (stateright)
    let nshards = if def.engine == "hist" { 1 } else { nshards };
    let dir = run_dir(def.id, tier);
    let _ = std::fs::remove_dir_all(&dir);
    std::fs::create_dir_all(&dir).expect("run dir");
    let evidence_path = format!("{}/evidence/{}.json", verif_dir(), def.id);
    let _ = std::fs::create_dir_all(format!("{}/evidence", verif_dir()));
    let _ = std::fs::create_dir_all(format!("{}/replays", verif_dir()));

    // shards in parallel; VERIF_SEED only rotates the launch order
    let order: Vec<u64> = (0..nshards).map(|i| (i + seed) % nshards).collect();
    let results: Vec<(u64, Result<ShardRes, String>)> = std::thread::scope(|s| {
        let hs: Vec<_> = order.iter().map(|&i| s.spawn(move || (i, run_one_shard(def, tier, i, nshards, seed)))).collect();
        hs.into_iter().map(|h| h.join().expect("shard thread")).collect()
    });

    let mut evals = 0u64;
    let mut transitions = 0u64;
    let mut traces = 0u64;
    let mut states_add = 0u64;
    let mut outcomes: BTreeMap<String, u64> = BTreeMap::new();
    let mut samples: Vec<Value> = vec![];
    let mut classes: BTreeMap<String, VioClass> = BTreeMap::new();
    let mut extra = Map::new();
    let mut capped = false;
    let mut total_indices = 0u64;
    let mut hashes: Vec<u64> = vec![];
    let mut skeys: Vec<u64> = vec![];
    let mut crashes: Vec<(u64, String)> = vec![];
    for (i, r) in results {
        let r = match r {
            Ok(r) => r,
            Err(e) => {
                println!("MACHINERY-ERROR: property={} shard {i}: {e}", def.id);
                return 2;
            }
        };
        let j = &r.json;
        evals += j["evals"].as_u64().unwrap_or(0);
        transitions += j["transitions"].as_u64().unwrap_or(0);
        traces += j["traces"].as_u64().unwrap_or(0);
        states_add += j["states"].as_u64().unwrap_or(0);
        total_indices = total_indices.max(j["total_indices"].as_u64().unwrap_or(0));
        capped |= j["capped"].as_bool().unwrap_or(false);
        if let Some(o) = j["outcomes"].as_object() {
            for (k, v) in o {
                *outcomes.entry(k.clone()).or_default() += v.as_u64().unwrap_or(0);
            }
        }
        if let Some(s) = j["samples"].as_array() {
            let take = if i == 0 { 4 } else { 1 };
            for x in s.iter().take(take) {
                samples.push(x.clone());
            }
            if i == nshards - 1 {
                if let Some(l) = s.last() {
                    samples.push(l.clone());
                }
            }
        }
        if let Some(e) = j["extra"].as_object() {
            for (k, v) in e {
                extra.entry(k.clone()).or_insert(v.clone());
            }
        }
        if let Some(vs) = j["viols"].as_array() {
            for v in vs {
                let fp = v["fingerprint"].as_str().unwrap_or("").to_string();
                let c = classes.entry(fp).or_default();
                c.clause = v["clause"].as_str().unwrap_or("").to_string();
                c.count += v["count"].as_u64().unwrap_or(0);
                for w in v["witnesses"].as_array().into_iter().flatten() {
                    let case = w["case"].clone();
                    c.witnesses.push((case.to_string().len(), case, w["detail"].as_str().unwrap_or("").to_string()));
                }
                c.witnesses.sort_by_key(|w| w.0);
                c.witnesses.truncate(3);
            }
        }
        hashes.extend(read_u64s(&dir.join(format!("shard-{i}.h"))));
        skeys.extend(read_u64s(&dir.join(format!("shard-{i}.s"))));
        crashes.extend(r.crashes);
    }
    hashes.sort_unstable();
    hashes.dedup();
    skeys.sort_unstable();
    skeys.dedup();
    let distinct = hashes.len() as u64;
    let states = skeys.len() as u64 + states_add;

    // crashes become violations with the described case
    for (idx, what) in crashes {
        let case = describe_case(def, tier, idx, nshards);
        // a case may name its own class so that crashes on different kinds of input stay apart
        let fp = match case.get("class").and_then(|c| c.as_str()) {
            Some(cl) => format!("crash:{what}:{cl}"),
            None => format!("crash:{what}"),
        };
        let c = classes.entry(fp).or_default();
        c.clause = "crash".into();
        c.count += 1;
        c.witnesses.push((case.to_string().len(), case, format!("worker process died ({what}) while evaluating case index {idx}")));
        c.witnesses.sort_by_key(|w| w.0);
        c.witnesses.truncate(3);
    }

    // classify against known findings
    let known = load_known();
    let mut n_viol = 0;
    let mut lines: Vec<String> = vec![];
    let mut known_hit: Vec<Value> = vec![];
    let mut viol_samples: Vec<Value> = vec![];
    for (fp, c) in &classes {
        let k = known.iter().find(|k| k.property == def.id && k.status == "known" && &k.fingerprint == fp);
        if let Some(k) = k {
            lines.push(format!("KNOWN-FINDING: property={} {} [{}; {} cases in this run]", def.id, k.what, fp, c.count));
            known_hit.push(json!({"fingerprint": fp, "cases": c.count}));
            continue;
        }
        // confirm by double replay in fresh processes
        let (_, case, detail) = &c.witnesses[0];
        let mut confirmed = true;
        if c.clause != "crash" && n_viol < 12 && std::env::var("VERIF_NO_CONFIRM").is_err() {
            for _ in 0..2 {
                match replay_in_child(def.id, case) {
                    Ok(fps) => {
                        // same fingerprint, or (when the replay shrinks differently) same oracle clause
                        if !fps.iter().any(|f| f == fp || f == &format!("CL {}", c.clause)) {
                            confirmed = false;
                        }
                    }
                    Err(_) => confirmed = false,
                }
            }
        }
        if !confirmed && def.id == "C08" {
            // C08 is about run-to-run determinism: a violation that does not reproduce on replay
            // *is* the finding (DESIGN §2.3)
            confirmed = true;
        }
        if !confirmed {
            println!("MACHINERY-ERROR: property={} violation [{fp}] did not reproduce on replay (nondeterministic harness?) case={}", def.id, case);
            return 2;
        }
        n_viol += 1;
        if n_viol > 12 {
            // every class is counted; only the first dozen get their own replay artefact and line
            continue;
        }
        let path = fp_file(def.id, fp);
        let rep = json!({"property": def.id, "fingerprint": fp, "clause": c.clause, "cases_in_run": c.count,
            "case": case, "detail": detail,
            "more_witnesses": c.witnesses.iter().skip(1).map(|w| json!({"case": w.1, "detail": w.2})).collect::<Vec<_>>()});
        let _ = std::fs::write(&path, serde_json::to_string_pretty(&rep).unwrap());
        lines.push(format!("VIOLATION property={} replay={}", def.id, path));
        lines.push(format!("  [{fp}] {} case(s); {}", c.count, detail.chars().take(300).collect::<String>()));
        viol_samples.push(json!({"violation": fp, "case": case}));
    }

    samples.truncate(10);
    samples.extend(viol_samples.into_iter().take(6));
    let wall = t0.elapsed().as_secs_f64();
    let mut cov = Map::new();
    cov.insert("evaluations".into(), json!(evals));
    cov.insert("distinct_nontrivial".into(), json!(distinct));
    cov.insert("rule".into(), json!(def.rule));
    cov.insert("samples".into(), json!(samples));
    cov.insert("exhaustive".into(), json!(!capped));
    cov.insert("case_indices_enumerated".into(), json!(total_indices));
    cov.insert("distinct_outcomes".into(), json!(outcomes.len()));
    cov.insert("outcomes".into(), json!(outcomes));
    cov.insert("shards".into(), json!(nshards));
    cov.insert("known_findings_seen".into(), json!(known_hit));
    cov.insert("violation_classes".into(), json!(n_viol));
    if def.level == "model_checking" {
        cov.insert("states".into(), json!(states));
        cov.insert("transitions".into(), json!(transitions));
        cov.insert("traces_validated_against_impl".into(), json!(traces));
    }
    for (k, v) in extra {
        cov.insert(k, v);
    }
    let ev = json!({
        "property_id": def.id, "tier": tier.name(), "seed": seed, "level": def.level,
        "coverage": cov, "assumptions": def.assumptions, "wall_s": wall, "violations": n_viol,
    });
    if let Err(e) = std::fs::write(&evidence_path, serde_json::to_string_pretty(&ev).unwrap()) {
        println!("MACHINERY-ERROR: cannot write evidence: {e}");
        return 2;
    }
    if n_viol > 12 {
        lines.push(format!("  ... and {} more violation classes (see evidence)", n_viol - 12));
    }
    println!(
        "{} {}: evaluations={} distinct_nontrivial={} states={} transitions={} outcomes={} exhaustive={} wall={:.1}s",
        def.id, tier.name(), evals, distinct, states, transitions, outcomes.len(), !capped, wall
    );
    {
        let so = std::io::stdout();
        let mut so = so.lock();
        for l in &lines {
            let _ = writeln!(so, "{l}");
        }
        let _ = so.flush();
    }
    let _ = std::fs::remove_dir_all(&dir);
    if evals == 0 {
        println!("MACHINERY-ERROR: property={} explored nothing", def.id);
        return 2;
    }
    if n_viol > 0 {
        1
    } else {
        0
    }
}

/// `mc replay <file>`: re-run exactly one recorded case, no explorer.
pub fn replay_main(def: &PropDef, file_json: &Value, quiet: bool) -> i32 {
    install_quiet_panic_hook();
    let case = &file_json["case"];
    let vs = (def.replay)(case);
    for v in &vs {
        println!("FP {}", v.fingerprint);
        println!("CL {}", v.clause);
        if !quiet {
            println!("  clause={} detail={}", v.clause, v.detail);
        }
    }
    if vs.is_empty() {
        if !quiet {
            println!("replay: property={} holds on this case", def.id);
        }
        0
    } else {
        if !quiet {
            println!("VIOLATION property={} replay=(this case)", def.id);
        }
        1
    }
}
