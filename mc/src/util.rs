//! small shared helpers
use quil_rs::quil::Quil;
use quil_rs::Program;
use std::str::FromStr;

pub fn parse(text: &str) -> Result<Program, String> {
    Program::from_str(text).map_err(|e| format!("{e:?}").chars().take(200).collect())
}

pub fn q<T: Quil>(t: &T) -> String {
    t.to_quil_or_debug()
}

/// Mixed-radix counter: calls f with every digit vector of the given radices (first digit slowest).
pub fn mixed_radix(radices: &[usize], mut f: impl FnMut(&[usize])) {
    if radices.iter().any(|&r| r == 0) {
        return;
    }
    let mut d = vec![0usize; radices.len()];
    loop {
        f(&d);
        let mut i = radices.len();
        loop {
            if i == 0 {
                return;
            }
            i -= 1;
            d[i] += 1;
            if d[i] < radices[i] {
                break;
            }
            d[i] = 0;
        }
    }
}

/// All sequences over 0..n of length exactly len, lexicographic.
pub fn sequences(n: usize, len: usize, mut f: impl FnMut(&[usize])) {
    if len == 0 {
        f(&[]);
        return;
    }
    mixed_radix(&vec![n; len], |d| f(d));
}

/// Shrink a menu-index sequence to a 1-minimal one for which `fails` still holds: delete single
/// elements, then lower each index to the smallest one (menus are ordered simplest-first).
pub fn shrink_idx(mut s: Vec<usize>, fails: &dyn Fn(&[usize]) -> bool) -> Vec<usize> {
    loop {
        let mut changed = false;
        let mut i = 0;
        while i < s.len() {
            let mut t = s.clone();
            t.remove(i);
            if fails(&t) {
                s = t;
                changed = true;
            } else {
                i += 1;
            }
        }
        for i in 0..s.len() {
            for k in 0..s[i] {
                let mut t = s.clone();
                t[i] = k;
                if fails(&t) {
                    s = t;
                    changed = true;
                    break;
                }
            }
        }
        if !changed {
            return s;
        }
    }
}

/// Shrink a list of items by deleting elements while `fails` holds.
pub fn shrink_list<T: Clone>(mut s: Vec<T>, fails: &dyn Fn(&[T]) -> bool) -> Vec<T> {
    loop {
        let mut changed = false;
        let mut i = 0;
        while i < s.len() {
            let mut t = s.clone();
            t.remove(i);
            if fails(&t) {
                s = t;
                changed = true;
            } else {
                i += 1;
            }
        }
        if !changed {
            return s;
        }
    }
}

pub fn strs(v: &serde_json::Value) -> Vec<String> {
    v.as_array().map(|a| a.iter().filter_map(|x| x.as_str().map(|s| s.to_string())).collect()).unwrap_or_default()
}
