//! Expression alphabet E(d): the harness's own tree type, its enumeration, conversion to and from
//! quil-rs expressions, the reference evaluator with branch-cut / conditioning guards, a shrinker.
use num_complex::Complex64 as C;
use quil_rs::expression::*;
use quil_rs::instruction::MemoryReference;
use serde::{Deserialize, Serialize};
use std::collections::HashMap;

#[derive(Clone, Debug, PartialEq, Serialize, Deserialize)]
pub enum Ex {
    Num(f64, f64),
    Pi,
    Var(String),
    Addr(String, u64),
    /// 0 cis 1 cos 2 exp 3 sin 4 sqrt
    Fn(u8, Box<Ex>),
    /// 0 minus 1 plus
    Pre(u8, Box<Ex>),
    /// 0 ^ 1 + 2 - 3 / 4 *
    In(u8, Box<Ex>, Box<Ex>),
}

pub const FUNS: [ExpressionFunction; 5] = [ExpressionFunction::Cis, ExpressionFunction::Cosine, ExpressionFunction::Exponent, ExpressionFunction::Sine, ExpressionFunction::SquareRoot];
pub const FUN_NAMES: [&str; 5] = ["cis", "cos", "exp", "sin", "sqrt"];
pub const PRES: [PrefixOperator; 2] = [PrefixOperator::Minus, PrefixOperator::Plus];
pub const INS: [InfixOperator; 5] = [InfixOperator::Caret, InfixOperator::Plus, InfixOperator::Minus, InfixOperator::Slash, InfixOperator::Star];
pub const IN_NAMES: [&str; 5] = ["^", "+", "-", "/", "*"];

impl Ex {
    pub fn to_expr(&self) -> Expression {
        match self {
            Ex::Num(r, i) => Expression::Number(C::new(*r, *i)),
            Ex::Pi => Expression::PiConstant(),
            Ex::Var(v) => Expression::Variable(v.clone()),
            Ex::Addr(n, i) => Expression::Address(MemoryReference::new(n.clone(), *i)),
            Ex::Fn(f, e) => Expression::FunctionCall(FunctionCallExpression::new(FUNS[*f as usize], e.to_expr().into())),
            Ex::Pre(p, e) => Expression::Prefix(PrefixExpression::new(PRES[*p as usize], e.to_expr().into())),
            Ex::In(o, l, r) => Expression::Infix(InfixExpression::new(l.to_expr().into(), INS[*o as usize], r.to_expr().into())),
        }
    }
    pub fn from_expr(e: &Expression) -> Ex {
        match e {
            Expression::Number(n) => Ex::Num(n.re, n.im),
            Expression::PiConstant() => Ex::Pi,
            Expression::Variable(v) => Ex::Var(v.clone()),
            Expression::Address(m) => Ex::Addr(m.name.clone(), m.index),
            Expression::FunctionCall(f) => Ex::Fn(FUNS.iter().position(|x| *x == f.function).unwrap() as u8, Box::new(Ex::from_expr(&f.expression))),
            Expression::Prefix(p) => Ex::Pre(PRES.iter().position(|x| *x == p.operator).unwrap() as u8, Box::new(Ex::from_expr(&p.expression))),
            Expression::Infix(i) => Ex::In(INS.iter().position(|x| *x == i.operator).unwrap() as u8, Box::new(Ex::from_expr(&i.left)), Box::new(Ex::from_expr(&i.right))),
        }
    }
    /// fully parenthesised, unambiguous rendering (for fingerprints and reports)
    pub fn show(&self) -> String {
        match self {
            Ex::Num(r, i) => {
                // extreme magnitudes in exponent form (reports and fingerprints only)
                let f = |x: f64| if x != 0.0 && (x.abs() < 1e-5 || x.abs() >= 1e16) { format!("{x:e}") } else { format!("{x}") };
                if *i == 0.0 {
                    f(*r)
                } else if *r == 0.0 {
                    format!("{}i", f(*i))
                } else {
                    format!("<{}{}{}i>", f(*r), if *i < 0.0 { "" } else { "+" }, f(*i))
                }
            }
            Ex::Pi => "pi".into(),
            Ex::Var(v) => format!("%{v}"),
            Ex::Addr(n, i) => format!("{n}[{i}]"),
            Ex::Fn(f, e) => format!("{}({})", FUN_NAMES[*f as usize], e.show()),
            Ex::Pre(p, e) => format!("({}{})", if *p == 0 { "-" } else { "+" }, e.show()),
            Ex::In(o, l, r) => format!("({}{}{})", l.show(), IN_NAMES[*o as usize], r.show()),
        }
    }
    /// parseable Quil source text for this tree (fully parenthesised)
    pub fn source(&self) -> String {
        match self {
            Ex::Num(r, i) => {
                if *i == 0.0 {
                    if *r < 0.0 {
                        format!("(-{})", -r)
                    } else {
                        format!("{r}")
                    }
                } else if *r == 0.0 {
                    if *i < 0.0 {
                        format!("(-{}i)", -i)
                    } else {
                        format!("{i}i")
                    }
                } else {
                    format!("({r}{}{}i)", if *i < 0.0 { "-" } else { "+" }, i.abs())
                }
            }
            Ex::Pi => "pi".into(),
            Ex::Var(v) => format!("%{v}"),
            Ex::Addr(n, i) => format!("{n}[{i}]"),
            Ex::Fn(f, e) => format!("{}({})", FUN_NAMES[*f as usize], e.source()),
            Ex::Pre(p, e) => format!("({}{})", if *p == 0 { "-" } else { "+" }, e.source()),
            Ex::In(o, l, r) => format!("({} {} {})", l.source(), IN_NAMES[*o as usize], r.source()),
        }
    }
    pub fn size(&self) -> usize {
        match self {
            Ex::Fn(_, e) | Ex::Pre(_, e) => 1 + e.size(),
            Ex::In(_, l, r) => 1 + l.size() + r.size(),
            _ => 1,
        }
    }
    pub fn has_compound(&self) -> bool {
        !matches!(self, Ex::Num(..) | Ex::Pi | Ex::Var(_) | Ex::Addr(..))
    }
    pub fn vars(&self, out: &mut Vec<String>) {
        match self {
            Ex::Var(v) => out.push(v.clone()),
            Ex::Fn(_, e) | Ex::Pre(_, e) => e.vars(out),
            Ex::In(_, l, r) => {
                l.vars(out);
                r.vars(out);
            }
            _ => {}
        }
    }
    pub fn addrs(&self, out: &mut Vec<(String, u64)>) {
        match self {
            Ex::Addr(n, i) => out.push((n.clone(), *i)),
            Ex::Fn(_, e) | Ex::Pre(_, e) => e.addrs(out),
            Ex::In(_, l, r) => {
                l.addrs(out);
                r.addrs(out);
            }
            _ => {}
        }
    }
    /// rename variable / address leaves in order of first appearance (for fingerprints)
    pub fn normalised(&self) -> Ex {
        fn go(e: &Ex, names: &mut Vec<String>) -> Ex {
            let mut name = |k: String| -> Ex {
                let i = match names.iter().position(|n| *n == k) {
                    Some(i) => i,
                    None => {
                        names.push(k);
                        names.len() - 1
                    }
                };
                Ex::Var(["x", "y", "z", "w", "u", "v"][i.min(5)].to_string())
            };
            match e {
                Ex::Var(v) => name(format!("%{v}")),
                Ex::Addr(n, i) => name(format!("{n}[{i}]")),
                Ex::Fn(f, c) => Ex::Fn(*f, Box::new(go(c, names))),
                Ex::Pre(f, c) => Ex::Pre(*f, Box::new(go(c, names))),
                Ex::In(o, l, r) => {
                    let l2 = go(l, names);
                    let r2 = go(r, names);
                    Ex::In(*o, Box::new(l2), Box::new(r2))
                }
                other => other.clone(),
            }
        }
        go(self, &mut vec![])
    }
    pub fn has_pi(&self) -> bool {
        match self {
            Ex::Pi => true,
            Ex::Fn(_, e) | Ex::Pre(_, e) => e.has_pi(),
            Ex::In(_, l, r) => l.has_pi() || r.has_pi(),
            _ => false,
        }
    }
}

/// leaves, simplest first for shrinking purposes is a separate list (`SHRINK_LEAVES`)
pub fn leaves() -> Vec<Ex> {
    vec![
        Ex::Num(0.0, 0.0),
        Ex::Num(1.0, 0.0),
        Ex::Num(-1.0, 0.0),
        Ex::Num(2.5, 0.0),
        Ex::Num(1.0, 2.0),
        Ex::Num(0.0, -2.0),
        Ex::Pi,
        Ex::Var("x".into()),
        Ex::Var("y".into()),
        Ex::Addr("a".into(), 0),
        Ex::Addr("b".into(), 1),
    ]
}
pub fn reduced_leaves() -> Vec<Ex> {
    vec![Ex::Var("x".into()), Ex::Num(1.0, 2.0), Ex::Num(-1.0, 0.0)]
}

/// The enumeration E(d) as layered index spaces.  `level0` = leaves; `grow` adds unary nodes over
/// the previous *new* layer and infix nodes over everything so far.
pub struct Space {
    pub funs: Vec<u8>,
    pub pres: Vec<u8>,
    pub ins: Vec<u8>,
    /// all trees of depth <= 1 (materialised; small)
    pub all1: Vec<Ex>,
    /// index in all1 where depth-1 (non-leaf) trees start
    pub d1_start: usize,
}

impl Space {
    pub fn new(leaves: Vec<Ex>, funs: Vec<u8>, pres: Vec<u8>, ins: Vec<u8>) -> Space {
        let mut all1 = leaves.clone();
        let d1_start = all1.len();
        for e in &leaves {
            for f in &funs {
                all1.push(Ex::Fn(*f, Box::new(e.clone())));
            }
            for p in &pres {
                all1.push(Ex::Pre(*p, Box::new(e.clone())));
            }
        }
        for l in &leaves {
            for r in &leaves {
                for o in &ins {
                    all1.push(Ex::In(*o, Box::new(l.clone()), Box::new(r.clone())));
                }
            }
        }
        Space { funs, pres, ins, all1, d1_start }
    }
    pub fn full() -> Space {
        Space::new(leaves(), vec![0, 1, 2, 3, 4], vec![0, 1], vec![0, 1, 2, 3, 4])
    }
    /// Visit every tree of depth exactly 2 by (lazy) constructor; `f(build)` gets a closure-free
    /// description: kind 0 = unary(op index into funs+pres, child index in all1),
    /// kind 1 = infix(op, l, r) with indices into all1.
    pub fn depth2(&self, mut f: impl FnMut(D2)) {
        let nun = self.funs.len() + self.pres.len();
        for c in self.d1_start..self.all1.len() {
            for u in 0..nun {
                f(D2::Un(u, c));
            }
        }
        let n = self.all1.len();
        for l in 0..n {
            for r in 0..n {
                if l < self.d1_start && r < self.d1_start {
                    continue; // depth 1, already in all1
                }
                for o in 0..self.ins.len() {
                    f(D2::In(o, l, r));
                }
            }
        }
    }
    pub fn build(&self, d: &D2) -> Ex {
        match *d {
            D2::Un(u, c) => {
                if u < self.funs.len() {
                    Ex::Fn(self.funs[u], Box::new(self.all1[c].clone()))
                } else {
                    Ex::Pre(self.pres[u - self.funs.len()], Box::new(self.all1[c].clone()))
                }
            }
            D2::In(o, l, r) => Ex::In(self.ins[o], Box::new(self.all1[l].clone()), Box::new(self.all1[r].clone())),
        }
    }
}
#[derive(Clone, Copy, Debug)]
pub enum D2 {
    Un(usize, usize),
    In(usize, usize, usize),
}

// ---------------------------------------------------------------------------------------------
// evaluation points and the guarded reference evaluator

pub type Vars = HashMap<String, C>;
pub type Memo = HashMap<String, Vec<f64>>;

pub fn points() -> Vec<(Vars, Memo)> {
    let mk = |x: f64, y: f64, a: [f64; 2], b: [f64; 2]| -> (Vars, Memo) {
        ([("x".to_string(), C::new(x, 0.0)), ("y".to_string(), C::new(y, 0.0))].into(), [("a".to_string(), a.to_vec()), ("b".to_string(), b.to_vec())].into())
    };
    vec![mk(0.7, -1.3, [0.3, 1.7], [-0.9, 0.4]), mk(2.1, 0.6, [1.9, 0.2], [0.8, -1.1]), mk(-1.3, 2.1, [-0.6, 0.9], [1.4, 2.3])]
}

/// near the branch cut of sqrt / ^ without being exactly on it: a *tiny non-zero* imaginary part is
/// rounding noise whose sign decides the branch.  An exactly zero imaginary part is not degenerate:
/// the library evaluates operands without negative zeros, so the axis is always approached from above.
fn on_cut(z: C) -> bool {
    z.re < 0.0 && z.im != 0.0 && z.im.abs() <= 1e-12 * (1.0 + z.norm())
}

/// Reference value; None when the point is degenerate for this tree (missing binding, non-finite,
/// branch cut of sqrt / ^, ill-conditioned intermediate, near-singular divisor).  DESIGN §4 C03.
pub fn gev(e: &Ex, v: &Vars, m: &Memo) -> Option<C> {
    let r = gev_inner(e, v, m)?;
    let a = r.norm();
    if (a > 0.0 && a < 1e-8) || a > 1e8 || !r.is_finite() {
        return None;
    }
    Some(r)
}
fn gev_inner(e: &Ex, v: &Vars, m: &Memo) -> Option<C> {
    Some(match e {
        Ex::Num(r, i) => C::new(*r, *i),
        Ex::Pi => C::new(std::f64::consts::PI, 0.0),
        Ex::Var(x) => *v.get(x)?,
        Ex::Addr(n, i) => C::new(*m.get(n)?.get(*i as usize)?, 0.0),
        Ex::Pre(p, e) => {
            let z = gev(e, v, m)?;
            if *p == 0 {
                -z
            } else {
                z
            }
        }
        Ex::Fn(f, e) => {
            let z = gev(e, v, m)?;
            match f {
                4 => {
                    if on_cut(z) {
                        return None;
                    }
                    z.sqrt()
                }
                3 => z.sin(),
                1 => z.cos(),
                2 => z.exp(),
                _ => z.cos() + C::new(0.0, 1.0) * z.sin(),
            }
        }
        Ex::In(o, l, r) => {
            let a = gev(l, v, m)?;
            let b = gev(r, v, m)?;
            match o {
                1 => a + b,
                2 => a - b,
                4 => a * b,
                3 => {
                    if b.norm() < 1e-9 {
                        return None;
                    }
                    a / b
                }
                _ => {
                    if on_cut(a) {
                        return None;
                    }
                    // 0^negative and friends are singular
                    // (an exponent whose real part is positive only by rounding noise, e.g. (-2i)^1
                    // computed through exp/log, is as singular as a purely imaginary one)
                    if a.norm() == 0.0 && b.re <= 1e-9 * (1.0 + b.norm()) && !(b.re == 0.0 && b.im == 0.0) {
                        return None;
                    }
                    if a.norm() == 0.0 && b.norm() == 0.0 {
                        C::new(1.0, 0.0)
                    } else if a.norm() == 0.0 {
                        C::new(0.0, 0.0)
                    } else {
                        a.powc(b)
                    }
                }
            }
        }
    })
}

/// plain evaluation (no guards) — the spec of `evaluate` for supplied bindings
pub fn plain_eval(e: &Ex, v: &Vars, m: &Memo) -> Option<C> {
    Some(match e {
        Ex::Num(r, i) => C::new(*r, *i),
        Ex::Pi => C::new(std::f64::consts::PI, 0.0),
        Ex::Var(x) => *v.get(x)?,
        Ex::Addr(n, i) => C::new(*m.get(n)?.get(*i as usize)?, 0.0),
        Ex::Pre(p, e) => {
            let z = plain_eval(e, v, m)?;
            if *p == 0 {
                -z
            } else {
                z
            }
        }
        Ex::Fn(_, e) => {
            plain_eval(e, v, m)?;
            C::new(0.0, 0.0)
        }
        Ex::In(_, l, r) => {
            plain_eval(l, v, m)?;
            plain_eval(r, v, m)?;
            C::new(0.0, 0.0)
        }
    })
}

// ---------------------------------------------------------------------------------------------
// shrinking

fn shrink_leaves() -> Vec<Ex> {
    vec![Ex::Var("x".into()), Ex::Var("y".into()), Ex::Num(1.0, 0.0), Ex::Num(0.0, 0.0), Ex::Num(2.5, 0.0), Ex::Num(-1.0, 0.0)]
}

/// all subtree positions as paths
fn paths(e: &Ex, cur: &mut Vec<u8>, out: &mut Vec<Vec<u8>>) {
    out.push(cur.clone());
    match e {
        Ex::Fn(_, c) | Ex::Pre(_, c) => {
            cur.push(0);
            paths(c, cur, out);
            cur.pop();
        }
        Ex::In(_, l, r) => {
            cur.push(0);
            paths(l, cur, out);
            cur.pop();
            cur.push(1);
            paths(r, cur, out);
            cur.pop();
        }
        _ => {}
    }
}
fn get<'a>(e: &'a Ex, p: &[u8]) -> &'a Ex {
    if p.is_empty() {
        return e;
    }
    match e {
        Ex::Fn(_, c) | Ex::Pre(_, c) => get(c, &p[1..]),
        Ex::In(_, l, r) => get(if p[0] == 0 { l } else { r }, &p[1..]),
        _ => e,
    }
}
fn replace(e: &Ex, p: &[u8], with: &Ex) -> Ex {
    if p.is_empty() {
        return with.clone();
    }
    match e {
        Ex::Fn(f, c) => Ex::Fn(*f, Box::new(replace(c, &p[1..], with))),
        Ex::Pre(f, c) => Ex::Pre(*f, Box::new(replace(c, &p[1..], with))),
        Ex::In(o, l, r) => {
            if p[0] == 0 {
                Ex::In(*o, Box::new(replace(l, &p[1..], with)), r.clone())
            } else {
                Ex::In(*o, l.clone(), Box::new(replace(r, &p[1..], with)))
            }
        }
        _ => e.clone(),
    }
}

/// 1-minimal tree for which `fails` still holds: hoist a sub-tree to the root, replace a sub-tree
/// by one of its children or by the simplest leaves.
pub fn shrink(mut e: Ex, fails: &dyn Fn(&Ex) -> bool) -> Ex {
    let leaves = shrink_leaves();
    'outer: loop {
        let mut ps = vec![];
        paths(&e, &mut vec![], &mut ps);
        // hoist any proper subtree to the root
        for p in ps.iter().filter(|p| !p.is_empty()) {
            let sub = get(&e, p).clone();
            if sub.size() < e.size() && fails(&sub) {
                e = sub;
                continue 'outer;
            }
        }
        for p in &ps {
            let sub = get(&e, p).clone();
            // replace by a child
            let kids: Vec<Ex> = match &sub {
                Ex::Fn(_, c) | Ex::Pre(_, c) => vec![(**c).clone()],
                Ex::In(_, l, r) => vec![(**l).clone(), (**r).clone()],
                _ => vec![],
            };
            for k in kids {
                let cand = replace(&e, p, &k);
                if fails(&cand) {
                    e = cand;
                    continue 'outer;
                }
            }
            // replace by a simpler leaf
            for l in &leaves {
                if &sub == l {
                    break;
                }
                if !sub.has_compound() && leaves.iter().position(|x| x == &sub).is_some_and(|i| i <= leaves.iter().position(|x| x == l).unwrap()) {
                    break;
                }
                let cand = replace(&e, p, l);
                if cand != e && fails(&cand) {
                    e = cand;
                    continue 'outer;
                }
            }
        }
        return e;
    }
}
