//! C28 — the control-flow graph partitions the body and locates its blocks.
//! Space: every body of length <= L over an 8-instruction menu (labels, the three jumps, HALT and
//! two ordinary instructions).  Oracle: DESIGN.md §4 C28.
use crate::engine::*;
use crate::util::*;
use quil_rs::instruction::*;
use quil_rs::program::analysis::ControlFlowGraph;
use quil_rs::Program;
use serde_json::{json, Value};
use std::str::FromStr;

const MENU: &[&str] = &["X 0", "MOVE r 1", "LABEL @a", "LABEL @b", "JUMP @a", "JUMP-WHEN @a r", "JUMP-UNLESS @b r", "HALT"];

pub static DEF: PropDef = PropDef {
    id: "C28",
    level: "model_checking",
    engine: "sweep",
    rule: "every body (sequence of instructions) of length <= 6 (thorough 8) over the 8-symbol menu {X 0, MOVE r 1, LABEL @a, LABEL @b, JUMP @a, JUMP-WHEN @a r, JUMP-UNLESS @b r, HALT}; a state is a body prefix, a transition appends one instruction; in every state: blocks written back as label + instructions + terminator reproduce the body, each terminator reflects its jump / HALT / fall-through, dynamic control flow iff a conditional jump, each offset = body position of the block's first element and offset-based indices find the block's instructions; non-trivial = body whose CFG has >= 2 blocks (distinct by body text)",
    assumptions: &["reference: blocks are written back as [label] ++ instructions ++ [terminator]; offsets from the running length of that reconstruction"],
    run,
    replay,
    caps: (50, 3000),
};

fn check(body: &[Instruction]) -> Vec<(&'static str, String)> {
    let mut out = vec![];
    let p = Program::from_instructions(body.to_vec());
    let r = catch(|| {
        let g = ControlFlowGraph::from(&p);
        let dynamic = g.has_dynamic_control_flow();
        (dynamic, g.into_blocks())
    });
    let (dynamic, blocks) = match r {
        Ok(x) => x,
        Err(e) => return vec![("panic", e)],
    };
    let mut rebuilt: Vec<Instruction> = vec![];
    let mut offsets_got = vec![];
    let mut offsets_want = vec![];
    let mut index_ok = true;
    for b in &blocks {
        offsets_got.push(b.instruction_index_offset());
        offsets_want.push(rebuilt.len());
        let off = b.instruction_index_offset();
        let has_label = b.label().is_some();
        if let Some(l) = b.label() {
            rebuilt.push(Instruction::Label(Label::new(l.clone())));
        }
        for (k, i) in b.instructions().iter().enumerate() {
            // offset-based index finds the instruction in the program body
            let at = off + usize::from(has_label) + k;
            if p.body_instructions().nth(at) != Some(*i) {
                index_ok = false;
            }
            rebuilt.push((*i).clone());
        }
        if let Some(t) = b.terminator().clone().into_instruction() {
            rebuilt.push(t);
        }
    }
    if rebuilt != body {
        out.push(("partition", format!("blocks written back give {:?}", rebuilt.iter().map(q).collect::<Vec<_>>())));
    }
    if offsets_got != offsets_want {
        out.push(("offset", format!("offsets {:?}, expected {:?}", offsets_got, offsets_want)));
    } else if !index_ok {
        out.push(("offset-index", "offset-based index does not find the block's instruction".to_string()));
    }
    let want_dyn = body.iter().any(|i| matches!(i, Instruction::JumpWhen(_) | Instruction::JumpUnless(_)));
    if want_dyn != dynamic {
        out.push(("dynamic", format!("has_dynamic_control_flow={dynamic}, expected {want_dyn}")));
    }
    out
}

fn viols_for(seq: &[usize], parsed: &[Instruction], shrink: bool) -> Vec<Viol> {
    let body: Vec<Instruction> = seq.iter().map(|k| parsed[*k].clone()).collect();
    let mut vs = vec![];
    for (clause, detail) in check(&body) {
        let fails = |s: &[usize]| {
            let b: Vec<Instruction> = s.iter().map(|k| parsed[*k].clone()).collect();
            check(&b).iter().any(|(c, _)| *c == clause)
        };
        let small = if shrink { shrink_idx(seq.to_vec(), &fails) } else { seq.to_vec() };
        let txt: Vec<&str> = small.iter().map(|k| MENU[*k]).collect();
        let fp = format!("C28:{clause}:{}", txt.join("; "));
        let case = json!({"body": txt});
        vs.push(viol(clause, fp, case, format!("body {:?}: {detail}", seq.iter().map(|k| MENU[*k]).collect::<Vec<_>>())));
    }
    vs
}

fn run(ctx: &mut Ctx) {
    let parsed: Vec<Instruction> = MENU.iter().map(|s| Instruction::from_str(s).unwrap()).collect();
    let maxlen = ctx.tier.pick(6, 8);
    ctx.bound("max_body_length", json!(maxlen));
    ctx.bound("menu", json!(MENU));
    for len in 0..=maxlen {
        sequences(MENU.len(), len, |s| {
            if !ctx.take(|| json!({"body": s.iter().map(|k| MENU[*k]).collect::<Vec<_>>()})) {
                return;
            }
            ctx.transitions += MENU.len() as u64 * u64::from(len < maxlen); // successors of this prefix state
            ctx.state(s);
            let body: Vec<Instruction> = s.iter().map(|k| parsed[*k].clone()).collect();
            let p = Program::from_instructions(body);
            let nblocks = ControlFlowGraph::from(&p).into_blocks().len();
            if nblocks >= 2 {
                ctx.nontrivial(s);
            }
            ctx.outcome(&format!("blocks={}", nblocks.min(6)));
            let vs = viols_for(s, &parsed, true);
            ctx.report_all(vs);
        });
        if !ctx.is_capped() {
            ctx.bound("completed_body_length", json!(len));
        }
    }
    ctx.traces = ctx.evals; // every enumerated body is executed on the real ControlFlowGraph
}

fn replay(case: &Value) -> Vec<Viol> {
    let parsed: Vec<Instruction> = MENU.iter().map(|s| Instruction::from_str(s).unwrap()).collect();
    let body = strs(&case["body"]);
    let seq: Vec<usize> = body.iter().filter_map(|t| MENU.iter().position(|m| m == t)).collect();
    if seq.len() != body.len() {
        return vec![];
    }
    viols_for(&seq, &parsed, true)
}
