//! C28 — the control-flow graph partitions the body and locates its blocks.
//! Space: every body of length <= L over an 8-instruction menu (labels, the three jumps, HALT and
//! two ordinary instructions).  Oracle: DESIGN.md §4 C28.
use crate::engine::*;
use crate::util::*;
use quil_rs::instruction::*;
use quil_rs::program::analysis::{BasicBlock, BasicBlockTerminator, ControlFlowGraph, ControlFlowGraphOwned};
use quil_rs::Program;
use serde_json::{json, Value};
use std::str::FromStr;

const MENU: &[&str] = &["X 0", "MOVE r 1", "LABEL @a", "LABEL @b", "JUMP @a", "JUMP-WHEN @a r", "JUMP-UNLESS @b r", "HALT"];
/// Second menu: the jumps / labels / conditions the first one lacks (other target per jump kind, an
/// indexed condition, a target no label defines).
const MENU2: &[&str] = &["X 0", "LABEL @a", "LABEL @b", "JUMP @b", "JUMP @c", "JUMP-WHEN @b s[1]", "JUMP-UNLESS @a s[1]", "JUMP-UNLESS @a r", "HALT"];
/// One ordinary instruction of every kind the graph builder keeps inside a block.
const KINDS: &[&str] = &[
    "ADD r 1", "AND r 1", "CALL f r", "CAPTURE 0 \"ro\" flat(duration: 1.0, iq: 1.0) w", "CONVERT r n", "EQ r r 1", "DELAY 0 1.0", "FENCE 0",
    "EXCHANGE r t", "LOAD r t n", "PRAGMA x", "MEASURE 0 r", "MEASURE 0", "NOP", "PULSE 0 \"ro\" flat(duration: 1.0, iq: 1.0)",
    "RAW-CAPTURE 0 \"ro\" 1.0 w", "RESET", "RESET 0", "SET-FREQUENCY 0 \"ro\" 1.0", "SET-PHASE 0 \"ro\" 1.0", "SET-SCALE 0 \"ro\" 1.0",
    "SHIFT-FREQUENCY 0 \"ro\" 1.0", "SHIFT-PHASE 0 \"ro\" 1.0", "STORE t n r", "SWAP-PHASES 0 \"ro\" 1 \"ro\"", "NOT r", "WAIT", "RX(r) 0",
];
const KIND_CTL: &[&str] = &["LABEL @a", "JUMP-WHEN @a r", "HALT"];

pub static DEF: PropDef = PropDef {
    id: "C28",
    level: "model_checking",
    engine: "sweep",
    rule: "every body (sequence of instructions) of length <= 6 (thorough 8) over the 8-symbol menu {X 0, MOVE r 1, LABEL @a, LABEL @b, JUMP @a, JUMP-WHEN @a r, JUMP-UNLESS @b r, HALT}, of length <= 5 (7) over a second 9-symbol menu with the other target of each jump kind, an indexed condition s[1] and a target no label defines, and of length <= 4 (5) over {K, LABEL @a, JUMP-WHEN @a r, HALT} for one instruction K of each of the 28 ordinary kinds the builder keeps inside a block (classical, CALL, pulse-level, PRAGMA, NOP, WAIT, RESET, MEASURE, ...); a state is a body prefix, a transition appends one instruction; in every state: blocks written back as label + instructions + terminator reproduce the body, each terminator reflects its jump / HALT / fall-through (kind, target, condition, is_dynamic), dynamic control flow iff a conditional jump, each offset = body position of the block's first element and offset-based indices find the block's instructions; the same observations after the round trip through ControlFlowGraphOwned; BasicBlock::try_from(&program) is Ok exactly for one-block bodies and gives that block; non-trivial = body whose CFG has >= 2 blocks (distinct by body text)",
    assumptions: &["reference: blocks are written back as [label] ++ instructions ++ [terminator]; offsets from the running length of that reconstruction"],
    run,
    replay,
    caps: (50, 3000),
};

/// What one block shows through the public accessors.
type Obs = (Option<String>, Vec<String>, usize, String);
fn observe(b: &BasicBlock) -> Obs {
    let t = match b.terminator() {
        BasicBlockTerminator::ConditionalJump { condition, target, jump_if_condition_zero } => format!("cond({}, {}, zero={})", q(*condition), q(*target), jump_if_condition_zero),
        BasicBlockTerminator::Continue => "continue".to_string(),
        BasicBlockTerminator::Jump { target } => format!("jump({})", q(*target)),
        BasicBlockTerminator::Halt => "halt".to_string(),
    };
    (b.label().map(q), b.instructions().iter().map(|i| q(*i)).collect(), b.instruction_index_offset(), t)
}

fn check(body: &[Instruction]) -> Vec<(&'static str, String)> {
    let mut out = vec![];
    let p = Program::from_instructions(body.to_vec());
    let r = catch(|| {
        let g = ControlFlowGraph::from(&p);
        let dynamic = g.has_dynamic_control_flow();
        // round trip through the owned form
        let owned = ControlFlowGraphOwned::from(g.clone());
        let back = ControlFlowGraph::from(&owned);
        let dyn_back = back.has_dynamic_control_flow();
        let obs_back: Vec<Obs> = back.into_blocks().iter().map(observe).collect();
        let only = BasicBlock::try_from(&p).ok().map(|b| observe(&b));
        (dynamic, dyn_back, obs_back, only, g.into_blocks())
    });
    let (dynamic, dyn_back, obs_back, only, blocks) = match r {
        Ok(x) => x,
        Err(e) => return vec![("panic", e)],
    };
    let mut rebuilt: Vec<Instruction> = vec![];
    let mut offsets_got = vec![];
    let mut offsets_want = vec![];
    let mut index_ok = true;
    let mut any_dynamic_block = false;
    for b in &blocks {
        offsets_got.push(b.instruction_index_offset());
        offsets_want.push(rebuilt.len());
        let off = b.instruction_index_offset();
        let has_label = b.label().is_some();
        if let Some(l) = b.label() {
            rebuilt.push(Instruction::Label(Label::new(l.clone())));
        }
        for (k, i) in b.instructions().iter().enumerate() {
            // offset-based index finds the instruction in the program body
            let at = off + usize::from(has_label) + k;
            if p.body_instructions().nth(at) != Some(*i) {
                index_ok = false;
            }
            rebuilt.push((*i).clone());
        }
        // the terminator reflects the instruction that ended the block
        let term = b.terminator().clone();
        let is_dyn = term.is_dynamic();
        any_dynamic_block |= is_dyn;
        let want = match &term {
            BasicBlockTerminator::ConditionalJump { condition, target, jump_if_condition_zero } => Some(if *jump_if_condition_zero {
                Instruction::JumpUnless(JumpUnless { condition: (*condition).clone(), target: (*target).clone() })
            } else {
                Instruction::JumpWhen(JumpWhen { condition: (*condition).clone(), target: (*target).clone() })
            }),
            BasicBlockTerminator::Continue => None,
            BasicBlockTerminator::Jump { target } => Some(Instruction::Jump(Jump { target: (*target).clone() })),
            BasicBlockTerminator::Halt => Some(Instruction::Halt()),
        };
        let got = term.into_instruction();
        if got != want {
            out.push(("terminator", format!("into_instruction gives {:?}, the terminator's fields say {:?}", got.as_ref().map(q), want.as_ref().map(q))));
        }
        if is_dyn != matches!(want, Some(Instruction::JumpWhen(_) | Instruction::JumpUnless(_))) {
            out.push(("terminator", format!("is_dynamic()={is_dyn} on {:?}", want.as_ref().map(q))));
        }
        // the instruction at the terminator's body position is that very instruction
        let tpos = off + usize::from(has_label) + b.instructions().len();
        if let Some(w) = &want {
            if p.body_instructions().nth(tpos) != Some(w) {
                index_ok = false;
            }
        }
        if let Some(t) = want {
            rebuilt.push(t);
        }
    }
    if rebuilt != body {
        out.push(("partition", format!("blocks written back give {:?}", rebuilt.iter().map(q).collect::<Vec<_>>())));
    }
    if offsets_got != offsets_want {
        out.push(("offset", format!("offsets {:?}, expected {:?}", offsets_got, offsets_want)));
    } else if !index_ok {
        out.push(("offset-index", "offset-based index does not find the block's instruction".to_string()));
    }
    let want_dyn = body.iter().any(|i| matches!(i, Instruction::JumpWhen(_) | Instruction::JumpUnless(_)));
    if want_dyn != dynamic {
        out.push(("dynamic", format!("has_dynamic_control_flow={dynamic}, expected {want_dyn}")));
    } else if any_dynamic_block != dynamic {
        out.push(("dynamic", format!("has_dynamic_control_flow={dynamic} but a block with a dynamic terminator exists: {any_dynamic_block}")));
    }
    let obs: Vec<Obs> = blocks.iter().map(observe).collect();
    if obs_back != obs || dyn_back != dynamic {
        out.push(("owned", format!("after ControlFlowGraphOwned round trip: {:?} (dynamic {dyn_back}), before: {:?} (dynamic {dynamic})", obs_back, obs)));
    }
    match (&only, obs.len()) {
        (Some(o), 1) if *o == obs[0] => {}
        (None, n) if n != 1 => {}
        _ => out.push(("single-block", format!("BasicBlock::try_from gives {:?} for a body of {} blocks {:?}", only, obs.len(), obs))),
    }
    out
}

fn parse_body(txt: &[String]) -> Option<Vec<Instruction>> {
    txt.iter().map(|t| Instruction::from_str(t).ok()).collect()
}

fn viols_for(txt: &[String], shrink: bool) -> Vec<Viol> {
    let Some(body) = parse_body(txt) else { return vec![] };
    let mut vs = vec![];
    for (clause, detail) in check(&body) {
        let fails = |s: &[String]| parse_body(s).map(|b| check(&b).iter().any(|(c, _)| *c == clause)).unwrap_or(false);
        let small = if shrink { shrink_list(txt.to_vec(), &fails) } else { txt.to_vec() };
        let fp = format!("C28:{clause}:{}", small.join("; "));
        let case = json!({"body": small});
        vs.push(viol(clause, fp, case, format!("body {:?}: {detail}", txt)));
    }
    vs
}

fn sweep(ctx: &mut Ctx, menu: &[&str], maxlen: usize, minlen: usize, tag: &str) {
    for len in minlen..=maxlen {
        sequences(menu.len(), len, |s| {
            let txt: Vec<String> = s.iter().map(|k| menu[*k].to_string()).collect();
            if !ctx.take(|| json!({"body": txt})) {
                return;
            }
            ctx.transitions += menu.len() as u64 * u64::from(len < maxlen); // successors of this prefix state
            ctx.state(&txt);
            let body = parse_body(&txt).expect("menu parses");
            let p = Program::from_instructions(body);
            let nblocks = ControlFlowGraph::from(&p).into_blocks().len();
            if nblocks >= 2 {
                ctx.nontrivial(&txt);
            }
            ctx.outcome(&format!("{tag}blocks={}", nblocks.min(6)));
            let vs = viols_for(&txt, true);
            ctx.report_all(vs);
        });
        if !ctx.is_capped() && tag.is_empty() {
            ctx.bound("completed_body_length", json!(len));
        }
    }
}

fn run(ctx: &mut Ctx) {
    let maxlen = ctx.tier.pick(6, 8);
    ctx.bound("max_body_length", json!(maxlen));
    ctx.bound("menu", json!(MENU));
    ctx.bound("menu2", json!(MENU2));
    ctx.bound("max_body_length_menu2", json!(ctx.tier.pick(5, 7)));
    ctx.bound("kinds", json!(KINDS));
    ctx.bound("max_body_length_kinds", json!(ctx.tier.pick(4, 5)));
    sweep(ctx, MENU, maxlen, 0, "");
    sweep(ctx, MENU2, ctx.tier.pick(5, 7), 1, "m2:");
    for k in KINDS {
        let mut menu = vec![*k];
        menu.extend_from_slice(KIND_CTL);
        sweep(ctx, &menu, ctx.tier.pick(4, 5), 1, "kind:");
    }
    ctx.traces = ctx.evals; // every enumerated body is executed on the real ControlFlowGraph
}

fn replay(case: &Value) -> Vec<Viol> {
    viols_for(&strs(&case["body"]), true)
}
