//! C04 — programs built through the public constructors serialize to text that parses back to an
//! equivalent program (expressions compared by value); placeholders make to_quil fail with the
//! placeholder error and only then; to_quil_or_debug never fails.
use crate::engine::*;
use num_complex::Complex64 as C;
use quil_rs::expression::*;
use quil_rs::instruction::*;
use quil_rs::quil::{Quil, ToQuilError};
use quil_rs::Program;
use serde_json::{json, Value};
use std::collections::HashMap;
use std::str::FromStr;

fn ev(e: &Expression, k: usize) -> Expression {
    let pts = [(0.7, -1.3, 0.3, 1.7), (2.1, 0.6, 1.9, 0.2)];
    let p = pts[k];
    let v: HashMap<String, C> = [("x".to_string(), C::new(p.0, 0.)), ("t".to_string(), C::new(p.1, 0.))].into();
    let m: HashMap<String, Vec<f64>> = [("theta".to_string(), vec![p.2, p.3])].into();
    match e.evaluate(&v, &m) {
        Ok(z) => {
            let r = |x: f64| {
                if x == 0.0 || !x.is_finite() {
                    x + 0.0
                } else {
                    let s = 10f64.powi(12 - (x.abs().log10().floor() as i32));
                    let y = (x * s).round() / s;
                    if y.is_finite() {
                        y
                    } else {
                        x
                    }
                }
            };
            Expression::Number(C::new(r(z.re), r(z.im)))
        }
        Err(_) => e.clone(),
    }
}

/// copy of `i` with every expression (also inside definition bodies) replaced by `f(expression)`
fn map_exprs(i: &Instruction, f: &mut dyn FnMut(&Expression) -> Expression) -> Instruction {
    let mut j = i.clone();
    j.apply_to_expressions(|e| *e = f(e));
    match &mut j {
        Instruction::CalibrationDefinition(c) => {
            c.instructions = c.instructions.iter().map(|x| map_exprs(x, f)).collect();
        }
        Instruction::MeasureCalibrationDefinition(c) => {
            c.instructions = c.instructions.iter().map(|x| map_exprs(x, f)).collect();
        }
        Instruction::CircuitDefinition(c) => {
            c.instructions = c.instructions.iter().map(|x| map_exprs(x, f)).collect();
        }
        Instruction::GateDefinition(g) => {
            if let GateSpecification::PauliSum(ps) = &mut g.specification {
                for t in ps.terms.iter_mut() {
                    t.expression = f(&t.expression);
                }
            }
        }
        Instruction::Call(c) => {
            for a in c.arguments.iter_mut() {
                if let UnresolvedCallArgument::Immediate(z) = a {
                    *z = C::new(z.re + 0.0, z.im + 0.0);
                }
            }
        }
        _ => {}
    }
    j
}

/// value-normaliser: every expression replaced by its value at generic point k
fn norm(i: &Instruction, k: usize) -> Instruction {
    map_exprs(i, &mut |e| ev(e, k))
}

fn num(r: f64, i: f64) -> Expression {
    Expression::Number(C::new(r, i))
}
fn mref(n: &str, i: u64) -> MemoryReference {
    MemoryReference::new(n.into(), i)
}
fn fr(name: &str, qs: Vec<Qubit>) -> FrameIdentifier {
    FrameIdentifier::new(name.into(), qs)
}

fn exprs(tier: Tier) -> Vec<Expression> {
    let x = Expression::Variable("t".into());
    let th = Expression::Address(mref("theta", 0));
    let th1 = Expression::Address(mref("theta", 1));
    let mut v = vec![
        num(2.0, 0.0),
        num(2.5, 0.0),
        num(-1.5, 0.0),
        num(0.0, 2.0),
        num(1.0, 2.0),
        x.clone(),
        th.clone(),
        th1.clone(),
        Expression::PiConstant(),
        num(2.0, 0.0) * Expression::PiConstant(),
        -x.clone(),
        -(-x.clone()),
        x.clone() - num(1.0, 0.0),
        num(1.0, 2.0) * x.clone(),
        num(1e21, 0.0),
        num(1e-7, 0.0),
        num(1e-17, 0.0),
        num(0.0, -3e-20),
    ];
    if tier == Tier::Thorough {
        v.extend([
            num(0.0, -2.0),
            num(-1.0, -2.0),
            -num(1.0, 2.0),
            x.clone() / (-th.clone()),
            (x.clone() - num(1.0, 0.0)) - num(2.0, 0.0),
            x.clone() - (num(1.0, 0.0) - th1.clone()),
            num(2.0, 0.0) ^ (x.clone() ^ num(0.5, 0.0)),
            (num(2.0, 0.0) ^ x.clone()) ^ num(0.5, 0.0),
            -(x.clone() ^ num(2.0, 0.0)),
            (-x.clone()) ^ num(2.0, 0.0),
            Expression::FunctionCall(FunctionCallExpression::new(ExpressionFunction::Cis, (-th.clone()).into())),
            Expression::Prefix(PrefixExpression::new(PrefixOperator::Plus, x.clone().into())),
            num(1.0, 0.0) / (x.clone() * th.clone()),
            num(0.1, 0.0) + num(0.2, 0.0),
            num(1.0 / 3.0, 0.0),
            num(123456789.123456789, 0.0),
            num(5e-324, 0.0),
            num(1.7976931348623157e308, 0.0),
        ]);
    }
    v
}

/// every expression-bearing position the constructors offer, filled with `e`
fn expr_sites(e: &Expression, only: Option<&[&str]>) -> Vec<(String, Instruction)> {
    let mut insts: Vec<(String, Instruction)> = vec![];
    macro_rules! site {
        ($name:expr, $inst:expr $(,)?) => {
            let n: String = $name;
            if only.map_or(true, |o| o.contains(&n.as_str())) {
                insts.push((n, $inst));
            }
        };
    }
    let q0 = Qubit::Fixed(0);
    let q1 = Qubit::Fixed(1);
    let qv = Qubit::Variable("q".into());
    for names in [vec![], vec!["rf".to_string()], vec!["rf".to_string(), "x y".to_string()]] {
        for qs in [vec![], vec![q0.clone()], vec![q0.clone(), q1.clone()], vec![qv.clone()]] {
            site!(format!("Delay(names={},qubits={}{})", names.len(), qs.len(), if qs.iter().any(|q| matches!(q, Qubit::Variable(_))) { "v" } else { "" }), Instruction::Delay(Delay::new(e.clone(), names.clone(), qs.clone())));
        }
    }
    site!("Gate.param".into(), Instruction::Gate(Gate::new("RX", vec![e.clone()], vec![q0.clone()], vec![]).unwrap()));
    site!("Gate.param2.modifiers".into(), Instruction::Gate(Gate::new("G", vec![num(1.0, 0.0), e.clone()], vec![q0.clone(), q1.clone(), qv.clone()], vec![GateModifier::Controlled, GateModifier::Dagger]).unwrap()));
    site!("SetPhase".into(), Instruction::SetPhase(SetPhase::new(fr("rf", vec![q0.clone()]), e.clone())));
    site!("SetScale".into(), Instruction::SetScale(SetScale::new(fr("rf", vec![q0.clone()]), e.clone())));
    site!("SetFrequency".into(), Instruction::SetFrequency(SetFrequency::new(fr("rf", vec![q0.clone(), q1.clone()]), e.clone())));
    site!("ShiftPhase".into(), Instruction::ShiftPhase(ShiftPhase::new(fr("rf", vec![qv.clone()]), e.clone())));
    site!("ShiftFrequency".into(), Instruction::ShiftFrequency(ShiftFrequency::new(fr("rf", vec![q0.clone()]), e.clone())));
    site!("RawCapture".into(), Instruction::RawCapture(RawCapture::new(false, fr("rf", vec![q0.clone()]), e.clone(), mref("a", 1))));
    site!(
        "Pulse.wfparam".into(),
        Instruction::Pulse(Pulse::new(true, fr("rf", vec![q0.clone(), q1.clone()]), WaveformInvocation::new("w".into(), [("a".to_string(), num(1.0, 0.0)), ("b".to_string(), e.clone())].into_iter().collect()))),
    );
    site!("Capture.wfparam".into(), Instruction::Capture(Capture::new(false, fr("ro", vec![q0.clone()]), mref("a", 0), WaveformInvocation::new("w/x".into(), [("b".to_string(), e.clone())].into_iter().collect()))));
    site!(
        "DefFrame.attr".into(),
        Instruction::FrameDefinition(FrameDefinition::new(fr("rf", vec![q0.clone()]), [("K".to_string(), AttributeValue::Expression(e.clone())), ("S".to_string(), AttributeValue::String("s".into()))].into_iter().collect())),
    );
    site!("DefWaveform".into(), Instruction::WaveformDefinition(WaveformDefinition::new("w".into(), Waveform::new(vec![e.clone(), num(1.0, 0.0)], vec!["t".into()]))));
    site!(
        "DefCal.body".into(),
        Instruction::CalibrationDefinition(CalibrationDefinition::new(
            CalibrationIdentifier::new("X".into(), vec![GateModifier::Dagger], vec![e.clone()], vec![qv.clone()]).unwrap(),
            vec![Instruction::Delay(Delay::new(e.clone(), vec![], vec![qv.clone()])), Instruction::Gate(Gate::new("RZ", vec![e.clone()], vec![qv.clone()], vec![]).unwrap())],
        )),
    );
    site!(
        "DefMeasureCal.body".into(),
        Instruction::MeasureCalibrationDefinition(MeasureCalibrationDefinition::new(
            MeasureCalibrationIdentifier::new(None, qv.clone(), Some("dest".into())),
            vec![Instruction::SetPhase(SetPhase::new(fr("ro", vec![qv.clone()]), e.clone()))],
        )),
    );
    site!(
        "DefCircuit.body".into(),
        Instruction::CircuitDefinition(CircuitDefinition::new("C".into(), vec!["t".into()], vec!["q".into()], vec![Instruction::Gate(Gate::new("RX", vec![e.clone()], vec![qv.clone()], vec![]).unwrap()), Instruction::Delay(Delay::new(e.clone(), vec![], vec![qv.clone()]))])),
    );
    site!("DefGate.matrix".into(), Instruction::GateDefinition(GateDefinition::new("G".into(), vec!["t".into()], GateSpecification::Matrix(vec![vec![e.clone(), num(0.0, 0.0)], vec![num(0.0, 0.0), num(1.0, 0.0)]])).unwrap()));
    insts
}

/// single well-formed, placeholder-free instructions: (site, instruction)
fn singles(tier: Tier) -> Vec<(String, Instruction)> {
    let mut insts: Vec<(String, Instruction)> = vec![];
    let reals: &[f64] = if tier == Tier::Quick { &[1.0, -2.0, 1e21, 1e-7, 2.5, 0.0] } else { &[1.0, -2.0, 1e21, 1e-7, 2.5, 0.0, -0.0, 1e15, 1e16, 1e17, 123456.789, 5e-324, 1.7976931348623157e308, -1e-300, 0.1, 1.0 / 3.0] };
    for &r in reals {
        insts.push(("Move.real".into(), Instruction::Move(Move::new(mref("a", 0), ArithmeticOperand::LiteralReal(r)))));
        for op in [ArithmeticOperator::Add, ArithmeticOperator::Divide] {
            insts.push(("Arithmetic.real".into(), Instruction::Arithmetic(Arithmetic::new(op, mref("a", 0), ArithmeticOperand::LiteralReal(r)))));
        }
        insts.push(("Comparison.real".into(), Instruction::Comparison(Comparison::new(ComparisonOperator::GreaterThan, mref("a", 0), mref("b", 1), ComparisonOperand::LiteralReal(r)))));
        insts.push(("Store.real".into(), Instruction::Store(Store::new("a".into(), mref("b", 0), ArithmeticOperand::LiteralReal(r)))));
    }
    for v in [0i64, -1, 7, i64::MIN, i64::MAX, i64::MIN + 1] {
        insts.push(("Move.int".into(), Instruction::Move(Move::new(mref("a", 0), ArithmeticOperand::LiteralInteger(v)))));
        insts.push(("Arithmetic.int".into(), Instruction::Arithmetic(Arithmetic::new(ArithmeticOperator::Multiply, mref("a", 3), ArithmeticOperand::LiteralInteger(v)))));
        insts.push(("BinaryLogic.int".into(), Instruction::BinaryLogic(BinaryLogic::new(BinaryOperator::Xor, mref("a", 0), BinaryOperand::LiteralInteger(v)))));
        insts.push(("Comparison.int".into(), Instruction::Comparison(Comparison::new(ComparisonOperator::LessThanOrEqual, mref("a", 0), mref("b", 1), ComparisonOperand::LiteralInteger(v)))));
        insts.push(("Store.int".into(), Instruction::Store(Store::new("a".into(), mref("b", 0), ArithmeticOperand::LiteralInteger(v)))));
    }
    for e in &exprs(tier) {
        insts.extend(expr_sites(e, None));
    }
    for a in [
        UnresolvedCallArgument::Identifier("a".into()),
        UnresolvedCallArgument::MemoryReference(mref("a", 1)),
        UnresolvedCallArgument::Immediate(C::new(-1.0, 0.0)),
        UnresolvedCallArgument::Immediate(C::new(0.0, 2.0)),
        UnresolvedCallArgument::Immediate(C::new(1.0, 2.0)),
        UnresolvedCallArgument::Immediate(C::new(1.5, 0.0)),
        UnresolvedCallArgument::Immediate(C::new(0.0, -2.0)),
        UnresolvedCallArgument::Immediate(C::new(-1.0, -2.5)),
        UnresolvedCallArgument::Immediate(C::new(1e21, 0.0)),
        UnresolvedCallArgument::Immediate(C::new(2.0, 0.0)),
    ] {
        let site = format!(
            "Call.{}",
            match &a {
                UnresolvedCallArgument::Immediate(z) => {
                    if z.re < 0.0 || z.im < 0.0 {
                        "imm-negative"
                    } else if z.re != 0.0 && z.im != 0.0 {
                        "imm-complex"
                    } else {
                        "imm"
                    }
                }
                _ => "ref",
            }
        );
        insts.push((site.clone(), Instruction::Call(Call::try_new("f".into(), vec![a.clone(), UnresolvedCallArgument::Identifier("b".into())]).unwrap())));
        insts.push((site, Instruction::Call(Call::try_new("f".into(), vec![UnresolvedCallArgument::Identifier("b".into()), a.clone()]).unwrap())));
    }
    // the rest of the instruction set, one or two forms each
    let simple = [
        "DECLARE a REAL[4] SHARING b OFFSET 2 BIT 1 REAL",
        "MEASURE!m q a[1]",
        "RESET",
        "RESET 3",
        "FENCE",
        "FENCE 0 q",
        "SWAP-PHASES 0 \"a\" 1 q \"b\"",
        "LABEL @a-b",
        "JUMP-UNLESS @a b[1]",
        "HALT",
        "WAIT",
        "NOP",
        "EXCHANGE a b[2]",
        "CONVERT a b",
        "LOAD a b c",
        "NOT a",
        "NEG a[2]",
        "PRAGMA A-b c 1 \"d \\\" e\"",
        "INCLUDE \"f.quil\"",
        "DEFGATE P AS PERMUTATION:\n    0, 2, 1, 3",
        "DEFGATE S2(%a) p q AS PAULI-SUM:\n    ZZ(-%a/4) p q\n    X(%a) q",
        "DEFGATE Q(%a) p q AS SEQUENCE:\n    RX(%a) p\n    CNOT p q",
        "DEFCAL MEASURE!m 0 dest:\n    CAPTURE 0 \"ro\" w dest",
        "PRAGMA EXTERN f \"INTEGER (x : mut REAL[], y : BIT)\"",
    ];
    for s in simple {
        let i = Instruction::from_str(s).or_else(|_| Program::from_str(s).map(|p| p.to_instructions()[0].clone())).unwrap_or_else(|e| panic!("simple instruction {s}: {e:?}"));
        insts.push((format!("parsed.{}", s.split_whitespace().next().unwrap()), i));
    }
    insts
}

fn placeholders() -> Vec<(bool, Instruction)> {
    let ph = Qubit::Placeholder(QubitPlaceholder::default());
    let tp = Target::Placeholder(TargetPlaceholder::new("l".into()));
    let q0 = Qubit::Fixed(0);
    let one = num(1.0, 0.0);
    let wf = || WaveformInvocation::new("w".into(), Default::default());
    let mut v: Vec<(bool, Instruction)> = vec![];
    for (has, q) in [(true, ph.clone()), (false, q0.clone())] {
        v.push((has, Instruction::Gate(Gate::new("X", vec![], vec![q.clone()], vec![]).unwrap())));
        v.push((has, Instruction::Gate(Gate::new("CNOT", vec![], vec![q0.clone(), q.clone()], vec![GateModifier::Dagger]).unwrap())));
        v.push((has, Instruction::Measurement(Measurement::new(None, q.clone(), None))));
        v.push((has, Instruction::Reset(Reset::new(Some(q.clone())))));
        v.push((has, Instruction::Fence(Fence::new(vec![q0.clone(), q.clone()]))));
        v.push((has, Instruction::Delay(Delay::new(one.clone(), vec![], vec![q.clone()]))));
        v.push((has, Instruction::Pulse(Pulse::new(true, fr("rf", vec![q.clone()]), wf()))));
        v.push((has, Instruction::Capture(Capture::new(true, fr("rf", vec![q.clone()]), mref("a", 0), wf()))));
        v.push((has, Instruction::RawCapture(RawCapture::new(true, fr("rf", vec![q.clone()]), one.clone(), mref("a", 0)))));
        v.push((has, Instruction::SetPhase(SetPhase::new(fr("rf", vec![q.clone()]), one.clone()))));
        v.push((has, Instruction::ShiftFrequency(ShiftFrequency::new(fr("rf", vec![q.clone()]), one.clone()))));
        v.push((has, Instruction::SwapPhases(SwapPhases::new(fr("rf", vec![q0.clone()]), fr("rf", vec![q.clone()])))));
        v.push((has, Instruction::FrameDefinition(FrameDefinition::new(fr("rf", vec![q.clone()]), Default::default()))));
        v.push((
            has,
            Instruction::CalibrationDefinition(CalibrationDefinition::new(CalibrationIdentifier::new("X".into(), vec![], vec![], vec![q0.clone()]).unwrap(), vec![Instruction::Gate(Gate::new("Y", vec![], vec![q.clone()], vec![]).unwrap())])),
        ));
        v.push((has, Instruction::CalibrationDefinition(CalibrationDefinition::new(CalibrationIdentifier::new("X".into(), vec![], vec![], vec![q.clone()]).unwrap(), vec![Instruction::Nop()]))));
        v.push((has, Instruction::CircuitDefinition(CircuitDefinition::new("C".into(), vec![], vec![], vec![Instruction::Gate(Gate::new("Y", vec![], vec![q.clone()], vec![]).unwrap())]))));
    }
    for (has, t) in [(true, tp.clone()), (false, Target::Fixed("l".into()))] {
        v.push((has, Instruction::Label(Label::new(t.clone()))));
        v.push((has, Instruction::Jump(Jump::new(t.clone()))));
        v.push((has, Instruction::JumpWhen(JumpWhen::new(t.clone(), mref("a", 0)))));
        v.push((has, Instruction::JumpUnless(JumpUnless::new(t.clone(), mref("a", 0)))));
        v.push((has, Instruction::CircuitDefinition(CircuitDefinition::new("C".into(), vec![], vec![], vec![Instruction::Jump(Jump::new(t.clone()))]))));
    }
    v
}

fn check_program(insts: &[&Instruction]) -> Vec<(String, String)> {
    let r = catch(|| {
        let p = Program::from_instructions(insts.iter().map(|i| (*i).clone()).collect());
        let txt = match p.to_quil() {
            Ok(t) => t,
            Err(e) => return vec![("serialize".to_string(), format!("to_quil failed without a placeholder: {e:?}"))],
        };
        let _ = p.to_quil_or_debug();
        match Program::from_str(&txt) {
            Err(_) => vec![("reparse".to_string(), format!("text {txt:?} does not parse"))],
            Ok(p2) => {
                let a = p.to_instructions();
                let b = p2.to_instructions();
                if a.len() != b.len() {
                    return vec![("not-equivalent".to_string(), format!("text {txt:?} parses to {} instructions instead of {}", b.len(), a.len()))];
                }
                for k in 0..2 {
                    for (x, y) in a.iter().zip(b.iter()) {
                        if norm(x, k) != norm(y, k) {
                            return vec![("not-equivalent".to_string(), format!("text {txt:?} parses back to `{}`", y.to_quil_or_debug()))];
                        }
                    }
                }
                vec![]
            }
        }
    });
    match r {
        Ok(v) => v,
        Err(p) => vec![("panic".into(), p)],
    }
}


/// guarded value comparison of two expression lists at the generic and special points of `ex`
fn exprs_agree(ea: &[Expression], eb: &[Expression]) -> Result<(), String> {
    use crate::ex::{gev, points, Ex};
    if ea.len() != eb.len() {
        return Err(format!("{} expressions came back as {}", ea.len(), eb.len()));
    }
    thread_local! {
        static PTS: Vec<(crate::ex::Vars, crate::ex::Memo)> = {
            let mut p = points();
            let mk = |x: f64, y: f64, a: [f64; 2], b: [f64; 2]| -> (crate::ex::Vars, crate::ex::Memo) {
                ([("x".to_string(), C::new(x, 0.0)), ("y".to_string(), C::new(y, 0.0))].into(), [("a".to_string(), a.to_vec()), ("b".to_string(), b.to_vec())].into())
            };
            p.push(mk(0.0, 0.0, [0.0, 0.0], [0.0, 0.0]));
            p.push(mk(2.5, -1.0, [-1.0, 2.5], [2.5, 0.0]));
            p
        };
    }
    for (a, b) in ea.iter().zip(eb.iter()) {
        if a == b {
            continue;
        }
        let (xa, xb) = (Ex::from_expr(a), Ex::from_expr(b));
        let r = PTS.with(|pts| {
            for (v, m) in pts {
                if gev(&xa, v, m).is_none() || gev(&xb, v, m).is_none() {
                    continue;
                }
                match (a.evaluate(v, m), b.evaluate(v, m)) {
                    (Ok(za), Ok(zb)) => {
                        if za.is_finite() && !((za - zb).norm() <= 1e-12 * (1.0 + za.norm())) {
                            return Err(format!("{} came back as {} ({za} vs {zb})", xa.show(), xb.show()));
                        }
                    }
                    (Ok(_), Err(_)) => return Err(format!("{} came back as {}, which does not evaluate", xa.show(), xb.show())),
                    _ => {}
                }
            }
            Ok(())
        });
        r?;
    }
    Ok(())
}

/// round trip of one built instruction whose expressions come from the exhaustive tree space:
/// skeleton (everything but the expressions) must be equal, expressions equal by guarded value
fn check_site(i: &Instruction) -> Vec<(String, String)> {
    let r = catch(|| {
        let p = Program::from_instructions(vec![i.clone()]);
        let txt = match p.to_quil() {
            Ok(t) => t,
            Err(e) => return vec![("serialize".to_string(), format!("to_quil failed without a placeholder: {e:?}"))],
        };
        match Program::from_str(&txt) {
            Err(_) => vec![("reparse".to_string(), format!("text {txt:?} does not parse"))],
            Ok(p2) => {
                let a = p.to_instructions();
                let b = p2.to_instructions();
                if a.len() != b.len() {
                    return vec![("not-equivalent".to_string(), format!("text {txt:?} parses to {} instructions instead of {}", b.len(), a.len()))];
                }
                for (x, y) in a.iter().zip(b.iter()) {
                    let (mut ea, mut eb) = (vec![], vec![]);
                    let zero = || Expression::Number(C::new(0.0, 0.0));
                    let sx = map_exprs(x, &mut |e| {
                        ea.push(e.clone());
                        zero()
                    });
                    let sy = map_exprs(y, &mut |e| {
                        eb.push(e.clone());
                        zero()
                    });
                    if sx != sy {
                        return vec![("not-equivalent".to_string(), format!("text {txt:?} parses back to `{}`", y.to_quil_or_debug()))];
                    }
                    if let Err(d) = exprs_agree(&ea, &eb) {
                        return vec![("not-equivalent".to_string(), format!("text {txt:?}: {d}"))];
                    }
                }
                vec![]
            }
        }
    });
    match r {
        Ok(v) => v,
        Err(p) => vec![("panic".into(), p)],
    }
}

/// sites visited for every tree of depth 2 (quick: the first; thorough: all)
const DEEP_SITES: &[&str] = &["Delay(names=0,qubits=1)", "Pulse.wfparam", "DefGate.matrix", "Delay(names=0,qubits=0)", "Gate.param", "DefFrame.attr", "DefWaveform", "DefCal.body"];

fn site_names() -> &'static [String] {
    static NAMES: std::sync::OnceLock<Vec<String>> = std::sync::OnceLock::new();
    NAMES.get_or_init(|| expr_sites(&num(1.0, 0.0), None).into_iter().map(|(n, _)| n).collect())
}

fn site_case(ctx: &mut Ctx, ex: &crate::ex::Ex, only: Option<&[&str]>, shrinks: &mut usize) {
    let e = ex.to_expr();
    for site in site_names() {
        if let Some(o) = only {
            if !o.contains(&site.as_str()) {
                continue;
            }
        }
        if !ctx.take(|| json!({"list": "expr-site", "site": site, "expr": ex})) {
            continue;
        }
        let build = |e: &Expression| expr_sites(e, Some(&[site.as_str()])).pop().map(|(_, i)| i);
        let Some(i) = build(&e) else { continue };
        ctx.nontrivial(&(site, ex.show()));
        let vs = check_site(&i);
        ctx.outcome(if vs.is_empty() { "site:roundtrips" } else { "site:fails" });
        for (clause, detail) in vs {
            let fails = |c: &crate::ex::Ex| build(&c.to_expr()).map(|i| check_site(&i).iter().any(|(cl, _)| *cl == clause)).unwrap_or(false);
            let fp = if *shrinks < 400 {
                *shrinks += 1;
                let small = crate::ex::shrink(ex.clone(), &fails);
                format!("C04:{clause}:{site}:{}", small.normalised().show())
            } else {
                format!("C04:{clause}:{site}:(unshrunk)")
            };
            ctx.report(viol(&clause, fp, json!({"list": "expr-site", "site": site, "expr": ex}), format!("{}: {detail}", i.to_quil_or_debug())));
        }
    }
}

fn check_placeholder(has: bool, i: &Instruction) -> Vec<(String, String)> {
    let mut out = vec![];
    match catch(|| i.to_quil()) {
        Err(p) => out.push(("panic".to_string(), p)),
        Ok(r) => {
            let is_ph_err = matches!(r, Err(ToQuilError::UnresolvedQubitPlaceholder) | Err(ToQuilError::UnresolvedLabelPlaceholder));
            if has && !is_ph_err {
                out.push(("placeholder-serializes".to_string(), format!("{i:?} contains a placeholder but to_quil gave {r:?}")));
            }
            if !has && r.is_err() {
                out.push(("serialize".to_string(), format!("{i:?} has no placeholder but to_quil gave {r:?}")));
            }
        }
    }
    // the debug serializer never fails: write(.., true) must return Ok (to_quil_or_debug() swallows the
    // error and returns the text written so far), and the text of a program must reach its last instruction
    match catch(|| {
        let mut buf = String::new();
        let r = i.write(&mut buf, true);
        (r, buf)
    }) {
        Err(p) => out.push(("debug-serializer-panics".to_string(), p)),
        Ok((Err(e), buf)) => out.push(("debug-serializer-fails".to_string(), format!("write(.., fall_back_to_debug = true) of {i:?} returned {e:?} after writing {buf:?}"))),
        Ok((Ok(()), _)) => {}
    }
    if let Ok(txt) = catch(|| Program::from_instructions(vec![i.clone(), Instruction::Halt()]).to_quil_or_debug()) {
        // definitions are listed before the body, so the trailing HALT is the last line in every case
        if !txt.trim_end().ends_with("HALT") {
            out.push(("debug-serializer-truncates".to_string(), format!("to_quil_or_debug of the program [{i:?}, HALT] is {txt:?}")));
        }
    }
    // the same at program level
    match catch(|| {
        let p = Program::from_instructions(vec![i.clone()]);
        let r = p.to_quil();
        let _ = p.to_quil_or_debug();
        r
    }) {
        Err(p) => out.push(("panic".to_string(), p)),
        Ok(r) => {
            if has != r.is_err() {
                out.push(("placeholder-program".to_string(), format!("program of {i:?}: to_quil is_err={} but placeholder present={has}", r.is_err())));
            }
        }
    }
    out
}

pub static C04: PropDef = PropDef {
    id: "C04",
    level: "exploration",
    engine: "sweep",
    rule: "instructions built with the public constructors: literal reals/integers (incl. -2.0, 1e21, 1e-7, i64::MIN/MAX) in every classical operand kind, 17 (thorough 35) expressions (negative and complex numbers, literals below 1e-16, nested negation, variables, references) in DELAY x {0,1,2 frame names} x {0,1,2 fixed, variable qubits}, gate parameters, SET-*/SHIFT-*, RAW-CAPTURE, waveform parameters, frame attributes, DEFWAVEFORM, DEFCAL / DEFCAL MEASURE / DEFCIRCUIT bodies, DEFGATE matrices; CALL with every immediate form; one form of every other instruction; all single instructions and all ordered pairs over a reduced list; every expression tree of depth <= 1 of the C03 alphabet (693) at every one of the 30 expression-bearing sites, and every tree of depth 2 (2.4 M) at the most context-sensitive site (DELAY without frame names; thorough: at 8 sites), compared by skeleton equality plus guarded value equality of each expression; 42 placeholder / placeholder-free twins. non-trivial = instruction containing an expression or literal (distinct by debug text)",
    assumptions: &["equivalence = == after replacing every expression by its value at two generic points rounded to 12 significant digits (DESIGN §4 C04); in the exhaustive expression-site space: == of the instruction with every expression blanked, plus value equality of each expression pair at the C03 points under the C03 guards"],
    run: |ctx| {
        let s = singles(ctx.tier);
        ctx.bound("single_instructions", json!(s.len()));
        for (k, (site, i)) in s.iter().enumerate() {
            if !ctx.take(|| json!({"list": "single", "index": k, "site": site, "debug": i.to_quil_or_debug()})) {
                continue;
            }
            ctx.nontrivial(&format!("{i:?}"));
            let vs = check_program(&[i]);
            ctx.outcome(if vs.is_empty() { "single:roundtrips" } else { "single:fails" });
            for (clause, detail) in vs {
                ctx.report(viol(&clause, format!("C04:{clause}:{site}"), json!({"list": "single", "index": k, "site": site}), format!("{}: {detail}", i.to_quil_or_debug())));
            }
        }
        // ordered pairs over a reduced list (every step-th instruction), definitions followed by uses etc.
        let step = ctx.tier.pick(7, 3);
        let red: Vec<usize> = (0..s.len()).step_by(step).collect();
        ctx.bound("pair_list_size", json!(red.len()));
        for &a in &red {
            for &b in &red {
                if !ctx.take(|| json!({"list": "pair", "index": [a, b]})) {
                    continue;
                }
                ctx.nontrivial(&(a, b));
                let vs = check_program(&[&s[a].1, &s[b].1]);
                ctx.outcome(if vs.is_empty() { "pair:roundtrips" } else { "pair:fails" });
                for (clause, detail) in vs {
                    ctx.report(viol(&clause, format!("C04:pair:{clause}:{}+{}", s[a].0, s[b].0), json!({"list": "pair", "index": [a, b]}), detail));
                }
            }
        }
        // every expression tree of depth <= 1 at every expression-bearing site; every tree of depth 2 at
        // the sites where the printed form is most context-sensitive
        let sp = crate::ex::Space::full();
        let mut shrinks = 0usize;
        ctx.bound("expression_trees_depth_le_1", json!(sp.all1.len()));
        for ex in &sp.all1 {
            site_case(ctx, ex, None, &mut shrinks);
        }
        let deep = &DEEP_SITES[..ctx.tier.pick(1, DEEP_SITES.len())];
        ctx.bound("depth2_sites", json!(deep));
        sp.depth2(|d| {
            let ex = sp.build(&d);
            site_case(ctx, &ex, Some(deep), &mut shrinks);
        });
        let ph = placeholders();
        for (k, (has, i)) in ph.iter().enumerate() {
            if !ctx.take(|| json!({"list": "placeholder", "index": k, "has_placeholder": has})) {
                continue;
            }
            ctx.nontrivial(&format!("ph{k}"));
            ctx.outcome(if *has { "placeholder:present" } else { "placeholder:absent" });
            for (clause, detail) in check_placeholder(*has, i) {
                ctx.report(viol(&clause, format!("C04:{clause}:{}", format!("{i:?}").split('(').next().unwrap_or("")), json!({"list": "placeholder", "index": k}), detail));
            }
        }
    },
    replay: |c| {
        // the lists are deterministic; thorough is a superset ordering-wise only for placeholders, so try both tiers
        let mut out = vec![];
        for tier in [Tier::Quick, Tier::Thorough] {
            let s = singles(tier);
            match c["list"].as_str() {
                Some("single") => {
                    let k = c["index"].as_u64().unwrap_or(0) as usize;
                    if let Some((site, i)) = s.get(k) {
                        if c["site"].as_str() == Some(site) {
                            out.extend(check_program(&[i]).into_iter().map(|(cl, d)| viol(&cl, format!("C04:{cl}:{site}"), c.clone(), d)));
                        }
                    }
                }
                Some("pair") => {
                    let a = c["index"][0].as_u64().unwrap_or(0) as usize;
                    let b = c["index"][1].as_u64().unwrap_or(0) as usize;
                    if let (Some(x), Some(y)) = (s.get(a), s.get(b)) {
                        out.extend(check_program(&[&x.1, &y.1]).into_iter().map(|(cl, d)| viol(&cl, format!("C04:pair:{cl}:{}+{}", x.0, y.0), c.clone(), d)));
                    }
                }
                Some("expr-site") => {
                    if let Ok(ex) = serde_json::from_value::<crate::ex::Ex>(c["expr"].clone()) {
                        let name = c["site"].as_str().unwrap_or("");
                        if let Some((site, i)) = expr_sites(&ex.to_expr(), Some(&[name])).first() {
                            out.extend(check_site(i).into_iter().map(|(cl, d)| viol(&cl, format!("C04:{cl}:{site}:replay"), c.clone(), d)));
                        }
                    }
                }
                Some("placeholder") => {
                    let ph = placeholders();
                    let k = c["index"].as_u64().unwrap_or(0) as usize;
                    if let Some((has, i)) = ph.get(k) {
                        out.extend(check_placeholder(*has, i).into_iter().map(|(cl, d)| viol(&cl, format!("C04:{cl}:replay"), c.clone(), d)));
                    }
                }
                _ => {}
            }
            if !out.is_empty() {
                break;
            }
        }
        out
    },
    caps: (50, 3000),
};
