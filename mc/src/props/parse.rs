//! C01 (parsing never panics) and C02 (parse -> print -> parse) over shared input spaces:
//! (a) all short character strings behind operand-reaching prefixes, (b) command x operand-token
//! sequences, (c) grammar templates with every single-token deletion / replacement / insertion
//! and all template pairs.  DESIGN.md §4 C01, C02.
use crate::engine::*;
use quil_rs::expression::Expression;
use quil_rs::instruction::{FrameIdentifier, Instruction, MemoryReference};
use quil_rs::quil::Quil;
use quil_rs::Program;
use serde_json::{json, Value};
use std::str::FromStr;

pub const CHARS: &[&str] = &["0", "1", "9", ".", "e", "E", "_", "x", "b", "o", "-", "+", "\"", "\\", "#", "%", "@", "a", "i", "(", "[", " ", "\n", "\t", "é", "🦀", ":", ","];
pub const PREFIXES: &[&str] = &["", "MOVE a ", "RX(", "DELAY 0 ", "PRAGMA A ", "a["];
pub const WRAPS: &[(&str, &str)] = &[("RX(", ") 0"), ("RX(a", " 1) 0")];
pub const CMDS: &[&str] = &[
    "ADD", "AND", "ASHR", "CALL", "CAPTURE", "CONVERT", "DECLARE", "DEFCAL", "DEFCIRCUIT", "DEFFRAME", "DEFGATE", "DEFWAVEFORM", "DELAY", "DIV", "EQ", "EXCHANGE", "FENCE", "GE", "GT", "HALT", "INCLUDE", "IOR", "JUMP",
    "JUMP-UNLESS", "JUMP-WHEN", "LABEL", "LE", "LOAD", "LT", "MEASURE", "MOVE", "MUL", "NEG", "NOP", "NOT", "PRAGMA", "PULSE", "RAW-CAPTURE", "RESET", "SET-FREQUENCY", "SET-PHASE", "SET-SCALE", "SHIFT-FREQUENCY", "SHIFT-PHASE",
    "SHL", "SHR", "STORE", "SUB", "SWAP-PHASES", "WAIT", "XOR", "NONBLOCKING", "X", "DAGGER",
];
pub const OPS: &[&str] = &[
    "a", "b[1]", "0", "1", "1.5", "-", "+", "*", "/", "^", "(", ")", "[", "]", ",", ":", "!", "\"s\"", "%v", "@l", "pi", "i", "sin", "BIT", "REAL", "INTEGER", "AS", "MATRIX", "PERMUTATION", "SEQUENCE", "PAULI-SUM", "SHARING",
    "OFFSET", "mut", "CONTROLLED", "FORKED", "\n    ", "\n", "MEASURE", "PULSE", "f(duration: 1)", "9223372036854775808", "X", "NOP",
];
pub const TEMPLATES: &[&str] = &[
    "ADD a 1", "ADD a 1.0", "ADD a -1", "ADD a b[1]", "SUB a 2.5", "MUL a -2.0", "DIV a 1e21", "DIV a 1e-7", "AND a 1", "IOR a b", "XOR a -1", "SHL a 1", "SHR a 1", "ASHR a 1", "NEG a", "NOT a", "EQ a b 1", "GT a b 1.0", "GE a b c",
    "LT a b -1", "LE a b -1.5", "MOVE a 1", "MOVE a 1.0", "MOVE a b", "EXCHANGE a b", "CONVERT a b", "LOAD a b c", "STORE a b 1", "STORE a b 1.0", "STORE a b c[2]", "DECLARE a BIT", "DECLARE a REAL[3]",
    "DECLARE a INTEGER[2] SHARING b", "DECLARE a OCTET SHARING b OFFSET 1 BIT 2 REAL", "CALL f a", "CALL f a[1] 2 1.5 2i b", "CALL f 0 i", "CALL f", "HALT", "NOP", "WAIT", "RESET", "RESET 0", "RESET q", "INCLUDE \"f.quil\"", "PRAGMA A",
    "PRAGMA A b 1 \"d\"", "PRAGMA EXTERN f \"INTEGER (x : mut REAL[])\"", "LABEL @a", "JUMP @a", "JUMP-WHEN @a b", "JUMP-UNLESS @a b[1]", "MEASURE 0", "MEASURE 0 a", "MEASURE q a[1]", "MEASURE!m 0 a", "MEASURE!m q", "X 0", "X q",
    "CNOT 0 1", "RX(pi) 0", "RX(1.0) 0", "RX(-pi/2) 0", "RX(%t) q", "RX(2*a[1]+sin(b)) 0", "RX(1.5e-3, 2i, -(1+i)) 0 1", "DAGGER CONTROLLED FORKED RX(1,2) 0 1 2",
    "G(1^2^3, (1^2)^3, 1-2-3, 1-(2-3), 1/2/3, 1/(2/3), -2^2, (-2)^2, -(2^2)) 0", "PULSE 0 \"rf\" w", "PULSE 0 1 \"rf\" w/x(a: 1, b: %t)", "NONBLOCKING PULSE 0 \"rf\" flat(duration: 1.0, iq: 1+2i)", "CAPTURE 0 \"ro\" flat(duration: 1) a",
    "NONBLOCKING CAPTURE 0 \"ro\" w a[1]", "RAW-CAPTURE 0 \"ro\" 1.0 a", "NONBLOCKING RAW-CAPTURE 0 \"ro\" 2*%t a[1]", "DELAY 0 1.0", "DELAY 0 1", "DELAY 0 1 2", "DELAY 0 \"rf\" 1.0", "DELAY 0 1 \"a\" \"b\" 2*pi", "DELAY q 1.5",
    "DELAY 0 (%t)", "DELAY 1.5", "DELAY 2", "FENCE", "FENCE 0 1", "FENCE q", "SET-FREQUENCY 0 \"rf\" 5e9", "SET-PHASE 0 \"rf\" pi/2", "SET-SCALE 0 \"rf\" 1.0", "SHIFT-FREQUENCY 0 \"rf\" -a", "SHIFT-PHASE 0 1 \"rf\" a[1]*2",
    "SWAP-PHASES 0 \"a\" 1 \"b\"", "DEFFRAME 0 \"rf\":\n    SAMPLE-RATE: 1.0\n    HARDWARE-OBJECT: \"q0\"\n    INITIAL-FREQUENCY: 5e9+a", "DEFWAVEFORM w:\n    1, 2i, 1+2i", "DEFWAVEFORM w/x(%a, %b):\n    %a, %b*2",
    "DEFCAL X 0:\n    NOP", "DEFCAL RX(%t) q:\n    SHIFT-PHASE q \"rf\" %t\n    NONBLOCKING PULSE q \"rf\" w", "DEFCAL RX(pi/2) 0 q:\n    X q", "DEFCAL DAGGER X 0:\n    NOP", "DEFCAL CONTROLLED X 0 1:\n    NOP", "DEFCAL MEASURE 0:\n    NOP",
    "DEFCAL MEASURE q dest:\n    CAPTURE q \"ro\" w dest", "DEFCAL MEASURE!m 0 dest:\n    NOP\n    NOP", "DEFGATE G:\n    1, 0\n    0, 1", "DEFGATE G(%a) AS MATRIX:\n    cos(%a), -i*sin(%a)\n    -i*sin(%a), cos(%a)",
    "DEFGATE G AS PERMUTATION:\n    0, 1, 3, 2", "DEFGATE G(%a) p q AS PAULI-SUM:\n    ZZ(-%a/4) p q\n    X(%a) q", "DEFGATE G(%a) p q AS SEQUENCE:\n    RX(%a) p\n    CNOT p q\n    DAGGER H q", "DEFCIRCUIT C:\n    X 0",
    "DEFCIRCUIT C(%a) p q:\n    RX(%a) p\n    MEASURE q ro\n    JUMP @l",
];
pub const TOKS: &[&str] = &[
    "a", "b[1]", "0", "1", "1.0", "-1", "2.5", "1e-17", "3e-20i", "-", "+", "*", "/", "^", "(", ")", "[", "]", ",", ":", "!", "\"s\"", "\"x\ty\"", "\"x\ny\"", "%v", "@l", "pi", "i", "2i", "sin", "BIT", "REAL", "AS", "MATRIX", "SHARING", "OFFSET", "mut", "CONTROLLED", "DAGGER",
    "\n    ", "\n", "NONBLOCKING", "MEASURE", "X", "q", "1e21", "9223372036854775808", "-9223372036854775808", "18446744073709551615", "é",
];

pub fn toks(s: &str) -> Vec<String> {
    let mut out = vec![];
    let mut cur = String::new();
    let mut inq = false;
    let cs: Vec<char> = s.chars().collect();
    let mut i = 0;
    while i < cs.len() {
        let c = cs[i];
        if inq {
            cur.push(c);
            if c == '"' {
                inq = false;
            }
            i += 1;
            continue;
        }
        if c == '"' {
            inq = true;
            cur.push(c);
            i += 1;
            continue;
        }
        if c == '\n' {
            if !cur.is_empty() {
                out.push(std::mem::take(&mut cur));
            }
            let mut t = String::from("\n");
            i += 1;
            while i < cs.len() && cs[i] == ' ' {
                t.push(' ');
                i += 1;
            }
            out.push(t);
            continue;
        }
        if c == ' ' {
            if !cur.is_empty() {
                out.push(std::mem::take(&mut cur));
            }
            i += 1;
            continue;
        }
        cur.push(c);
        i += 1;
    }
    if !cur.is_empty() {
        out.push(cur);
    }
    out
}
pub fn join(t: &[String]) -> String {
    let mut s = String::new();
    for (k, x) in t.iter().enumerate() {
        if k > 0 && !x.starts_with('\n') && !t[k - 1].starts_with('\n') {
            s.push(' ');
        }
        s.push_str(x);
    }
    s
}

const ENTRY: &[&str] = &["Program", "Instruction", "Expression", "MemoryReference", "FrameIdentifier"];
fn entry(k: usize, s: &str) -> Result<bool, String> {
    catch(|| match k {
        0 => Program::from_str(s).is_ok(),
        1 => Instruction::from_str(s).is_ok(),
        2 => Expression::from_str(s).is_ok(),
        3 => MemoryReference::from_str(s).is_ok(),
        _ => FrameIdentifier::from_str(s).is_ok(),
    })
}

/// C01 oracle on one text: every entry point returns.
fn c01_check(s: &str, entries: usize) -> (u32, Vec<Viol>) {
    let mut acc = 0u32;
    let mut vs = vec![];
    for k in 0..entries {
        match entry(k, s) {
            Ok(true) => acc |= 1 << k,
            Ok(false) => {}
            Err(p) => vs.push(viol("panic", format!("C01:panic:{p}"), json!({"text": s}), format!("{}::from_str({s:?}) panicked at {p}", ENTRY[k]))),
        }
    }
    (acc, vs)
}

fn variant(i: &Instruction) -> String {
    let d = format!("{i:?}");
    d.split(|c: char| !c.is_alphanumeric()).next().unwrap_or("").to_string()
}

/// Structural cause of a CALL round-trip difference, so that the one recorded finding (an identifier
/// argument spelled `i` directly after an immediate with no imaginary part: `0 i` prints as the text of
/// the single immediate `0i`) does not cover any other way a CALL can change.
fn call_cause(i: &Instruction) -> &'static str {
    use quil_rs::instruction::UnresolvedCallArgument as A;
    if let Instruction::Call(c) = i {
        let glued = c.arguments.windows(2).any(|w| matches!((&w[0], &w[1]), (A::Immediate(v), A::Identifier(n)) if v.im == 0.0 && n == "i"));
        if glued {
            return ":identifier-i-after-real-immediate";
        }
    }
    ""
}

/// C02 oracle on one accepted program.
fn c02_check(s: &str) -> Option<Vec<Viol>> {
    let p = match catch(|| Program::from_str(s)) {
        Ok(Ok(p)) => p,
        _ => return None,
    };
    let mut vs = vec![];
    let case = json!({"text": s});
    let r = catch(|| {
        let t = match p.to_quil() {
            Ok(t) => t,
            Err(e) => return Some(("serialize".to_string(), format!("to_quil failed: {e:?}"), None)),
        };
        match Program::from_str(&t) {
            Err(_) => {
                // localise: first instruction whose own text does not parse back
                let mut which = None;
                for i in p.to_instructions() {
                    if let Ok(ti) = i.to_quil() {
                        if Program::from_str(&ti).is_err() {
                            which = Some(variant(&i));
                            break;
                        }
                    }
                }
                Some(("reparse".to_string(), format!("printed text {t:?} does not parse"), which))
            }
            Ok(p2) => {
                if p2 != p {
                    let a = p.to_instructions();
                    let b = p2.to_instructions();
                    let which = a.iter().zip(b.iter()).find(|(x, y)| x != y).map(|(x, _)| format!("{}{}", variant(x), call_cause(x))).or_else(|| a.first().map(variant));
                    Some(("differs".to_string(), format!("printed text {t:?} parses to a different program"), which))
                } else {
                    match p2.to_quil() {
                        Ok(t2) if t2 == t => None,
                        Ok(t2) => Some(("not-idempotent".to_string(), format!("second serialization {t2:?} differs from the first {t:?}"), None)),
                        Err(e) => Some(("serialize".to_string(), format!("second to_quil failed: {e:?}"), None)),
                    }
                }
            }
        }
    });
    match r {
        Err(pan) => vs.push(viol("panic", format!("C02:panic:{pan}"), case, format!("round trip of {s:?} panicked at {pan}"))),
        Ok(None) => {}
        Ok(Some((clause, detail, which))) => vs.push(viol(&clause, format!("C02:{clause}:{}", which.unwrap_or_else(|| "?".into())), case, format!("input {s:?}: {detail}"))),
    }
    Some(vs)
}

#[derive(Clone, Copy, PartialEq)]
enum Which {
    C01,
    C02,
}

fn visit(ctx: &mut Ctx, which: Which, s: &str, entries: usize, space: &str) {
    match which {
        Which::C01 => {
            let (acc, vs) = c01_check(s, entries);
            if acc != 0 {
                ctx.nontrivial(s);
                ctx.outcome(&format!("{space}:accepted-by-some-entry-point"));
            } else {
                ctx.outcome(&format!("{space}:rejected"));
            }
            ctx.report_all(vs);
        }
        Which::C02 => match c02_check(s) {
            None => ctx.outcome(&format!("{space}:rejected")),
            Some(vs) => {
                ctx.nontrivial(s);
                ctx.outcome(&format!("{space}:accepted"));
                ctx.report_all(vs);
            }
        },
    }
}

fn run(ctx: &mut Ctx, which: Which) {
    // (a) character strings
    let l = ctx.tier.pick(4, 5);
    let na = CHARS.len();
    ctx.bound("char_alphabet", json!(CHARS));
    ctx.bound("char_prefixes", json!(PREFIXES));
    let mut idx = vec![0usize; l];
    for len in 0..=l {
        let total = na.pow(len as u32);
        for k0 in 0..total {
            let mut k = k0;
            for j in idx.iter_mut().take(len) {
                *j = k % na;
                k /= na;
            }
            for pre in PREFIXES {
                let mk = || {
                    let mut s = String::from(*pre);
                    for j in 0..len {
                        s.push_str(CHARS[idx[j]]);
                    }
                    s
                };
                if ctx.take(|| json!({"text": mk()})) {
                    visit(ctx, which, &mk(), 5, "chars");
                }
            }
        }
        if !ctx.is_capped() {
            ctx.bound("completed_char_length", json!(len));
        }
    }
    // (a') the same strings wrapped so that most of them are *accepted*: inside a gate parameter, and
    // directly after a name inside a gate parameter (no whitespace between name and operator characters)
    ctx.bound("char_wrappers", json!(WRAPS));
    for len in 0..=l {
        let total = na.pow(len as u32);
        for k0 in 0..total {
            let mut k = k0;
            for j in idx.iter_mut().take(len) {
                *j = k % na;
                k /= na;
            }
            for (pre, suf) in WRAPS {
                let mk = || {
                    let mut s = String::from(*pre);
                    for j in 0..len {
                        s.push_str(CHARS[idx[j]]);
                    }
                    s.push_str(suf);
                    s
                };
                if ctx.take(|| json!({"text": mk()})) {
                    visit(ctx, which, &mk(), 1, "chars-wrapped");
                }
            }
        }
    }
    // (b) command x operand tokens
    let d = ctx.tier.pick(3, 4);
    let no = OPS.len();
    ctx.bound("operand_tokens", json!(OPS));
    let mut idx = vec![0usize; d];
    for len in 0..=d {
        let total = no.pow(len as u32);
        for c in CMDS {
            for k0 in 0..total {
                let mut k = k0;
                for j in idx.iter_mut().take(len) {
                    *j = k % no;
                    k /= no;
                }
                let mk = || {
                    let mut s = String::from(*c);
                    for j in 0..len {
                        let t = OPS[idx[j]];
                        if !t.starts_with('\n') {
                            s.push(' ');
                        }
                        s.push_str(t);
                    }
                    s
                };
                if ctx.take(|| json!({"text": mk()})) {
                    visit(ctx, which, &mk(), 2, "tokens");
                }
            }
        }
        if !ctx.is_capped() {
            ctx.bound("completed_token_depth", json!(len));
        }
    }
    // (c) templates with single-token deviations, template pairs (thorough: two deviations on a subset)
    ctx.bound("templates", json!(TEMPLATES.len()));
    for t in TEMPLATES {
        let tk = toks(t);
        let mut cases: Vec<String> = vec![t.to_string()];
        for p in 0..tk.len() {
            let mut dl = tk.clone();
            dl.remove(p);
            cases.push(join(&dl));
            for r in TOKS {
                let mut m = tk.clone();
                m[p] = r.to_string();
                cases.push(join(&m));
            }
        }
        for p in 0..=tk.len() {
            for r in TOKS {
                let mut m = tk.clone();
                m.insert(p, r.to_string());
                cases.push(join(&m));
            }
        }
        for s in &cases {
            if ctx.take(|| json!({"text": s})) {
                visit(ctx, which, s, 2, "template-1-deviation");
            }
        }
        if ctx.tier == Tier::Thorough {
            // two deviations: replace two positions by every pair of a reduced token list
            let red: Vec<&str> = TOKS.iter().cloned().step_by(3).collect();
            for p in 0..tk.len() {
                for q2 in p + 1..tk.len() {
                    for r1 in &red {
                        for r2 in &red {
                            let mk = || {
                                let mut m = tk.clone();
                                m[p] = r1.to_string();
                                m[q2] = r2.to_string();
                                join(&m)
                            };
                            if ctx.take(|| json!({"text": mk()})) {
                                visit(ctx, which, &mk(), 2, "template-2-deviations");
                            }
                        }
                    }
                }
            }
        }
    }
    for a in TEMPLATES {
        for b in TEMPLATES {
            let mk = || format!("{a}\n{b}");
            if ctx.take(|| json!({"text": mk()})) {
                visit(ctx, which, &mk(), 1, "template-pairs");
            }
        }
    }
    run_expr_templates(ctx, which);
    if ctx.tier == Tier::Thorough {
        for a in TEMPLATES.iter().step_by(3) {
            for b in TEMPLATES.iter().step_by(2) {
                for c in TEMPLATES.iter().step_by(3) {
                    let mk = || format!("{a}\n{b}\n{c}");
                    if ctx.take(|| json!({"text": mk()})) {
                        visit(ctx, which, &mk(), 1, "template-triples");
                    }
                }
            }
        }
    }
}

pub const EXPR_TEMPLATES: &[&str] = &[
    "RX({}) 0",
    "DELAY 0 ({})",
    "DELAY 0 {}",
    "DELAY 0 \"f\" {}",
    "SET-PHASE 0 \"f\" {}",
    "SHIFT-FREQUENCY 0 1 \"f\" {}",
    "PULSE 0 \"f\" w(a: {})",
    "CAPTURE 0 \"f\" w(a: {}, b: 1) r",
    "RAW-CAPTURE 0 \"f\" {} r",
    "DEFFRAME 0 \"f\":\n    K: {}",
    "DEFWAVEFORM w(%x, %y):\n    {}, 1",
    "DEFGATE G(%x, %y) AS MATRIX:\n    {}, 0\n    0, 1",
    "DEFCAL RX({}) 0:\n    NOP",
    "DEFCAL X q:\n    DELAY q ({})\n    RX({}) q",
    "DEFCIRCUIT C(%x, %y) q:\n    RX({}) q",
    "CONTROLLED DAGGER G(1, {}) 0 1",
];

/// (d) every expression-bearing template x every expression tree of depth <= 1 (and a slice of depth 2)
fn run_expr_templates(ctx: &mut Ctx, which: Which) {
    let sp = crate::ex::Space::full();
    for t in EXPR_TEMPLATES {
        for e in &sp.all1 {
            let mk = || t.replace("{}", &e.source());
            if ctx.take(|| json!({"text": mk()})) {
                visit(ctx, which, &mk(), 2, "expr-templates");
            }
        }
    }
    // depth 2: all trees in thorough; quick takes the first three templates over every 97th tree
    let (nt, step) = if ctx.tier == Tier::Thorough { (4usize, 7usize) } else { (3, 97) };
    let mut k = 0usize;
    sp.depth2(|d| {
        k += 1;
        if k % step != 0 {
            return;
        }
        for t in &EXPR_TEMPLATES[..nt] {
            let mk = || t.replace("{}", &sp.build(&d).source());
            if ctx.take(|| json!({"text": mk()})) {
                visit(ctx, which, &mk(), 1, "expr-templates-depth2");
            }
        }
    });
}

fn replay(which: Which, case: &Value) -> Vec<Viol> {
    let Some(s) = case["text"].as_str() else { return vec![] };
    match which {
        Which::C01 => c01_check(s, 5).1,
        Which::C02 => c02_check(s).unwrap_or_default(),
    }
}

pub static C01: PropDef = PropDef {
    id: "C01",
    level: "exploration",
    engine: "sweep",
    rule: "(a) every string of length <= 4 (thorough 5) over a 28-character alphabet (digits, radix/exponent letters, signs, quote, backslash, #, %, @, brackets, whitespace, two non-ASCII) behind 6 operand-reaching prefixes, fed to all 5 from_str entry points, and the same strings inside `RX(...) 0` and directly after a name in `RX(a... 1) 0` (so that most are accepted); (b) every command (54) followed by <= 3 (4) tokens of a 44-token operand alphabet; (c) 118 grammar templates with every single-token deletion / replacement / insertion over 50 tokens (incl. strings containing a tab and a newline, and literals below 1e-16), all template pairs (thorough: two-token replacements, triples); (d) 16 expression-bearing templates x every expression tree of depth <= 1 (693) and a slice of depth 2. Worker processes: a panic is caught and located, an abort/stack overflow kills the worker and is attributed to the case. non-trivial = input accepted by at least one entry point (distinct by text)",
    assumptions: &["overflow checks and debug assertions are ON in the harness build so that integer overflow panics instead of wrapping", "inputs outside the alphabets (long programs, other Unicode) are not covered"],
    run: |ctx| run(ctx, Which::C01),
    replay: |c| replay(Which::C01, c),
    caps: (55, 6000),
};
pub static C02: PropDef = PropDef {
    id: "C02",
    level: "exploration",
    engine: "sweep",
    rule: "the same four input spaces as C01; every text the parser accepts as a program is printed, parsed again, compared with == and printed again (byte-identical). non-trivial = accepted text (distinct by text)",
    assumptions: &["equality is the library's own == on Program"],
    run: |ctx| run(ctx, Which::C02),
    replay: |c| replay(Which::C02, c),
    caps: (55, 6000),
};
