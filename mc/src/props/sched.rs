//! C22 (well-formed DAG), C23 (memory sequential consistency), C24 (frame conflicts),
//! C25 (ASAP frame-exclusive schedules).  Program-level spaces: every instruction sequence up to a
//! bound over the menus below (x 3 terminators), run through the real `ScheduledProgram`.
//! Queue-level spaces (C23/C24): every access sequence on the real `DependencyQueue` via the
//! cfg-guarded hook.  Oracles: DESIGN.md §4 C22–C25.
use crate::engine::*;
use crate::refm::*;
use crate::util::*;
use quil_rs::instruction::*;
use quil_rs::program::analysis::{BasicBlock, ControlFlowGraph};
use quil_rs::program::scheduling::*;
use quil_rs::program::ExpansionResult;
use quil_rs::Program;
use serde_json::{json, Value};
use std::collections::{BTreeMap, BTreeSet};
use std::str::FromStr;

pub const HEADER: &str = "DECLARE ro BIT\nDECLARE raw REAL[4]\nDECLARE theta REAL\nDECLARE n INTEGER\nDECLARE a REAL\nDECLARE b REAL\nDEFFRAME 0 \"a\":\n    SAMPLE-RATE: 1.0\nDEFFRAME 1 \"a\":\n    SAMPLE-RATE: 1.0\nDEFFRAME 0 1 \"c\":\n    SAMPLE-RATE: 1.0\nDEFFRAME 0 \"b\":\n    SAMPLE-RATE: 2.0\nDEFWAVEFORM wf:\n    1, 1, 1, 1\nPRAGMA EXTERN f \"(x : mut REAL, y : REAL)\"\n";

/// general menu: frames on overlapping qubit sets, blocking / non-blocking, every RF kind, a pulse on
/// an undefined frame of an unused qubit (matches nothing) and one on a used qubit (only *blocks*),
/// classical readers / writers, control flow (multi-block)
pub const MENU_F: &[&str] = &[
    "PULSE 0 \"a\" flat(duration: 1.0, iq: 1)",
    "NONBLOCKING PULSE 0 \"a\" flat(duration: 2.0, iq: 1)",
    "PULSE 1 \"a\" flat(duration: 1.0, iq: 1)",
    "NONBLOCKING PULSE 0 1 \"c\" flat(duration: 3.0, iq: 1)",
    "PULSE 0 1 \"c\" flat(duration: 1.0, iq: 1)",
    "CAPTURE 0 \"b\" flat(duration: 1.0, iq: 1) ro",
    "NONBLOCKING CAPTURE 1 \"a\" flat(duration: 1.5, iq: 1) ro",
    "NONBLOCKING RAW-CAPTURE 1 \"a\" 2.0 raw",
    "DELAY 0 1.5",
    "DELAY 0 \"a\" 0.5",
    "DELAY 0 1 1.0",
    "FENCE",
    "FENCE 1",
    "SET-PHASE 0 \"a\" 1.0",
    "SHIFT-FREQUENCY 0 1 \"c\" theta",
    "SWAP-PHASES 0 \"a\" 1 \"a\"",
    "RESET 0",
    "PULSE 2 \"z\" flat(duration: 1.0, iq: 1)",
    "PULSE 1 \"zz\" flat(duration: 1.0, iq: 1)",
    "MOVE theta 1.0",
    "MOVE ro 1",
    "ADD n 1",
    "MOVE n ro",
    "PRAGMA X",
    "NOP",
    "LABEL @m",
    "JUMP @m",
    "JUMP-UNLESS @m ro",
];
/// memory menu: every access shape over regions a, b; captures into one region on disjoint
/// non-blocking frames so that only memory edges can order them
pub const MENU_M: &[&str] = &[
    "MOVE a 1.0",
    "MOVE a b",
    "ADD a 1.0",
    "ADD b a",
    "NEG b",
    "EXCHANGE a b",
    "EXCHANGE a a",
    "SHIFT-PHASE 1 \"a\" b",
    "DELAY 1 \"a\" a",
    "NONBLOCKING RAW-CAPTURE 0 \"b\" 1.0 b",
    "NONBLOCKING CAPTURE 0 \"a\" flat(duration: 1.0, iq: 1) a",
    "NONBLOCKING CAPTURE 1 \"a\" flat(duration: 1.0, iq: 1) a",
    "SET-PHASE 0 \"b\" a",
    "NONBLOCKING PULSE 0 1 \"c\" flat(duration: b, iq: 1)",
    "LOAD a b n",
    "STORE b n a",
    "EQ b a 1",
    "GT ro b 0.5",
    "STORE a n 7",
    "MOVE n 1",
    "CALL f a b",
    "CALL f b 1.5",
];
/// timed menu for C25: only instructions with a known duration
pub const MENU_T: &[&str] = &[
    "PULSE 0 \"a\" flat(duration: 1.0, iq: 1)",
    "NONBLOCKING PULSE 0 \"a\" flat(duration: 2.0, iq: 1)",
    "PULSE 1 \"a\" flat(duration: 1.0, iq: 1)",
    "NONBLOCKING PULSE 0 1 \"c\" flat(duration: 3.0, iq: 1)",
    "PULSE 0 1 \"c\" flat(duration: 1.0, iq: 1)",
    "CAPTURE 0 \"b\" flat(duration: 1.0, iq: 1) ro",
    "NONBLOCKING RAW-CAPTURE 1 \"a\" 2.0 raw",
    "DELAY 0 1.5",
    "DELAY 0 \"a\" 0.5",
    "DELAY 0 1 1.0",
    "FENCE",
    "FENCE 1",
    "SET-PHASE 0 \"a\" 1.0",
    "SWAP-PHASES 0 \"a\" 1 \"a\"",
    "PULSE 0 \"b\" wf",
    "NONBLOCKING PULSE 0 \"a\" wf",
    "NONBLOCKING PULSE 1 \"a\" erf_square(duration: 1.0, pad_left: 0.5, pad_right: 0.25, risetime: 0.1)",
    "NONBLOCKING PULSE 1 \"a\" erf_square(duration: 1.0, pad_left: 0.5, risetime: 0.1)",
    "PULSE 0 \"a\" erf_square(duration: 1.0, pad_right: 0.25, risetime: 0.1)",
    "PULSE 2 \"z\" flat(duration: 1.0, iq: 1)",
];
/// C22 only: a header in which qubits 0 and 1 have NO single-qubit frame, so `RESET 0` uses nothing and
/// only blocks the two-qubit frame (S115), next to a qubit 2 with its own frame.
pub const HEADER_B: &str = "DECLARE ro BIT\nDEFFRAME 0 1 \"cz\":\n    SAMPLE-RATE: 1.0\nDEFFRAME 2 \"a\":\n    SAMPLE-RATE: 1.0\n";
pub const MENU_B: &[&str] = &[
    "PULSE 0 1 \"cz\" flat(duration: 1.0, iq: 1)",
    "NONBLOCKING PULSE 0 1 \"cz\" flat(duration: 2.0, iq: 1)",
    "RESET 0",
    "RESET 1",
    "RESET 2",
    "FENCE 0",
    "DELAY 0 1.0",
    "PULSE 2 \"a\" flat(duration: 1.0, iq: 1)",
    "SET-PHASE 0 1 \"cz\" 1.0",
    "MEASURE 0 ro",
];
pub const TERMS: &[&str] = &["", "JUMP-WHEN @l ro", "HALT"];

#[derive(Clone, Copy, PartialEq)]
enum Which {
    C22,
    C23,
    C24,
    C25,
}

fn real(e: &quil_rs::expression::Expression) -> Option<f64> {
    e.to_real().ok()
}

/// documented duration of a timed instruction (None = not a timed instruction with known duration)
fn ref_duration(p: &Program, i: &Instruction, fr: &Fr) -> Option<f64> {
    match i {
        Instruction::Pulse(Pulse { waveform, .. }) | Instruction::Capture(Capture { waveform, .. }) => {
            if let Some(def) = p.waveforms.get(&waveform.name) {
                // samples / common sample rate of the used frames
                let mut rates = vec![];
                for f in p.frames.get_keys() {
                    if fr.used.contains(&fid(f)) {
                        let attrs = p.frames.get(f)?;
                        match attrs.get("SAMPLE-RATE")? {
                            AttributeValue::Expression(e) => rates.push(real(e)?),
                            AttributeValue::String(_) => return None,
                        }
                    }
                }
                let r = *rates.first()?;
                if rates.iter().any(|x| *x != r) {
                    return None;
                }
                Some(def.matrix.len() as f64 / r)
            } else {
                let d = real(waveform.parameters.get("duration")?)?;
                let l = waveform.parameters.get("pad_left").and_then(real).unwrap_or(0.0);
                let r = waveform.parameters.get("pad_right").and_then(real).unwrap_or(0.0);
                Some(d + l + r)
            }
        }
        Instruction::Delay(Delay { duration, .. }) | Instruction::RawCapture(RawCapture { duration, .. }) => real(duration),
        Instruction::Fence(_)
        | Instruction::SetFrequency(_)
        | Instruction::SetPhase(_)
        | Instruction::SetScale(_)
        | Instruction::ShiftFrequency(_)
        | Instruction::ShiftPhase(_)
        | Instruction::SwapPhases(_) => Some(0.0),
        _ => None,
    }
}

/// reference accesses incl. CALL (per the statement: mutable parameters and the return slot are
/// written, every passed region is read)
fn ref_mem_p(p: &Program, i: &Instruction) -> Mem {
    if let Instruction::Call(c) = i {
        let mut m = Mem::default();
        if let Ok(map) = p.try_extern_signature_map_from_pragma_map() {
            if let Some((_, sig)) = map.iter().find(|(k, _)| k.as_str() == c.name) {
                let mut args = c.arguments().iter();
                let name = |a: &UnresolvedCallArgument| match a {
                    UnresolvedCallArgument::Identifier(n) => Some(n.clone()),
                    UnresolvedCallArgument::MemoryReference(r) => Some(r.name.clone()),
                    _ => None,
                };
                if sig.return_type().is_some() {
                    if let Some(n) = args.next().and_then(name) {
                        m.w.insert(n);
                    }
                }
                for (a, prm) in args.zip(sig.parameters()) {
                    if let Some(n) = name(a) {
                        m.r.insert(n.clone());
                        if prm.mutable() {
                            m.w.insert(n);
                        }
                    }
                }
            }
        }
        return m;
    }
    ref_mem(i).unwrap_or_default()
}

struct BlockFacts {
    n_conflicts: usize,
}

/// Analyse every block of a scheduled program for the clauses of property `which`.
fn analyze(p: &Program, which: Which, facts: &mut BlockFacts) -> Result<Vec<(String, String)>, String> {
    let mut out: Vec<(String, String)> = vec![];
    let sp = match catch(|| ScheduledProgram::from_program(p, &DefaultHandler)) {
        Err(pan) => return Ok(vec![("panic".into(), pan)]),
        Ok(Err(e)) => return Err(format!("{:?}", e.variant)),
        Ok(Ok(s)) => s,
    };
    for (bi, b) in sp.basic_blocks().iter().enumerate() {
        let g = b.get_dependency_graph();
        let n = b.instructions().len();
        let pos = |x: ScheduledGraphNode| match x {
            ScheduledGraphNode::BlockStart => 0usize,
            ScheduledGraphNode::InstructionIndex(i) => i + 1,
            ScheduledGraphNode::BlockEnd => n + 1,
        };
        let mut add = |c: &str, d: String| out.push((c.to_string(), format!("block {bi}: {d}")));
        let mut adj_any = vec![vec![false; n + 2]; n + 2];
        let mut adj_st = adj_any.clone();
        let mut adj_sc = adj_any.clone();
        let mut adj_mem = adj_any.clone();
        for (a, bn, w) in g.all_edges() {
            let (i, j) = (pos(a), pos(bn));
            if i >= n + 2 || j >= n + 2 {
                add("edge-out-of-range", format!("edge {a:?}->{bn:?} names a node outside the block"));
                continue;
            }
            if i >= j && which == Which::C22 {
                add("edge-not-forward", format!("edge {a:?} -> {bn:?}"));
            }
            if w.is_empty() && which == Which::C22 {
                add("edge-without-dependency", format!("edge {a:?} -> {bn:?}"));
            }
            adj_any[i][j] = true;
            if which == Which::C22 && i >= 1 && j <= n {
                facts.n_conflicts += 1;
            }
            for d in w {
                match d {
                    ExecutionDependency::StableOrdering => adj_st[i][j] = true,
                    ExecutionDependency::Scheduled => adj_sc[i][j] = true,
                    ExecutionDependency::AwaitMemoryAccess(_) => adj_mem[i][j] = true,
                }
            }
        }
        let close = |adj: &Vec<Vec<bool>>| {
            let mut c = adj.clone();
            for k in 0..n + 2 {
                for i in 0..n + 2 {
                    if c[i][k] {
                        for j in 0..n + 2 {
                            if c[k][j] {
                                c[i][j] = true;
                            }
                        }
                    }
                }
            }
            c
        };
        let frs: Vec<Fr> = b.instructions().iter().map(|i| ref_frames(p, i)).collect();
        match which {
            Which::C22 => {
                let c_any = close(&adj_any);
                // acyclic (implied by forward edges, checked independently)
                if (0..n + 2).any(|k| c_any[k][k]) {
                    add("cycle", "dependency graph has a cycle".into());
                }
                for node in g.nodes() {
                    if pos(node) > n + 1 {
                        add("node-out-of-range", format!("{node:?}"));
                    }
                }
                let all_match = frs.iter().all(|f| !f.rf || !f.used.is_empty() || !f.blocked.is_empty());
                if all_match {
                    for k in 1..=n {
                        if !c_any[0][k] {
                            add("unreachable-from-start", format!("instruction {} `{}`", k - 1, q(b.instructions()[k - 1])));
                        }
                        if !c_any[k][n + 1] {
                            add("does-not-reach-end", format!("instruction {} `{}`", k - 1, q(b.instructions()[k - 1])));
                        }
                    }
                    if !c_any[0][n + 1] {
                        add("start-does-not-reach-end", String::new());
                    }
                }
            }
            Which::C23 => {
                let c_any = close(&adj_any);
                let term = b.terminator().clone().into_instruction();
                let mut mems: Vec<Mem> = b.instructions().iter().map(|i| ref_mem_p(p, i)).collect();
                mems.push(term.as_ref().map(|t| ref_mem_p(p, t)).unwrap_or_default());
                let name = |k: usize| if k < n { q(b.instructions()[k]) } else { term.as_ref().map(q).unwrap_or_default() };
                for i in 0..=n {
                    for j in i + 1..=n {
                        if i == n {
                            continue;
                        }
                        let mc = mem_conflict(&mems[i], &mems[j]);
                        if mc {
                            facts.n_conflicts += 1;
                        }
                        if mc && !c_any[i + 1][j + 1] {
                            add("conflicting-pair-unordered", format!("`{}` then `{}`", name(i), name(j)));
                        }
                        if !mc && adj_mem[i + 1][j + 1] {
                            add("unjustified-memory-edge", format!("`{}` -> `{}`", name(i), name(j)));
                        }
                    }
                }
                // memory edges never involve the block start
                for j in 0..n + 2 {
                    if adj_mem[0][j] {
                        add("memory-edge-from-block-start", format!("to node {j}"));
                    }
                }
            }
            Which::C24 => {
                let c_st = close(&adj_st);
                let c_sc = close(&adj_sc);
                for i in 0..n {
                    for j in i + 1..n {
                        let cf = frs[i].rf && frs[j].rf && frame_conflict(&frs[i], &frs[j]);
                        let (a, bb) = (q(b.instructions()[i]), q(b.instructions()[j]));
                        if cf {
                            facts.n_conflicts += 1;
                            if !c_st[i + 1][j + 1] {
                                add("conflicting-pair-unordered", format!("`{a}` then `{bb}`"));
                            }
                            if frs[i].timed && frs[j].timed && !c_sc[i + 1][j + 1] {
                                add("conflicting-timed-pair-unordered", format!("`{a}` then `{bb}`"));
                            }
                        } else {
                            // (classical-classical StableOrdering edges do not exist: classical
                            // instructions are only linked to the block boundaries)
                            if adj_st[i + 1][j + 1] {
                                add("unjustified-ordering-edge", format!("`{a}` -> `{bb}`"));
                            }
                            if adj_sc[i + 1][j + 1] {
                                add("unjustified-timed-edge", format!("`{a}` -> `{bb}`"));
                            }
                        }
                        if adj_sc[i + 1][j + 1] && !(frs[i].timed && frs[j].timed) {
                            add("timed-edge-on-untimed-instruction", format!("`{a}` -> `{bb}`"));
                        }
                    }
                }
            }
            Which::C25 => {
                let sched = match catch(|| b.as_schedule_seconds(p, &DefaultHandler)) {
                    Err(pan) => {
                        add("panic", pan);
                        continue;
                    }
                    Ok(Err(_)) => continue,
                    Ok(Ok(s)) => s,
                };
                facts.n_conflicts += 1;
                let mut start = vec![f64::NAN; n];
                let mut dur = vec![f64::NAN; n];
                let mut seen = vec![0usize; n];
                for it in sched.items() {
                    if it.instruction_index >= n {
                        add("item-out-of-range", format!("{}", it.instruction_index));
                        continue;
                    }
                    seen[it.instruction_index] += 1;
                    start[it.instruction_index] = it.time_span.start_time().0;
                    dur[it.instruction_index] = it.time_span.duration().0;
                }
                if seen.iter().any(|c| *c != 1) {
                    add("item-count", format!("items per instruction {seen:?}"));
                    continue;
                }
                let mut end_ref = vec![0.0f64; n];
                let mut maxend = 0.0f64;
                for j in 0..n {
                    let ins = b.instructions()[j];
                    match ref_duration(p, ins, &frs[j]) {
                        Some(d) => {
                            if (d - dur[j]).abs() > 1e-12 {
                                add("duration", format!("`{}` has duration {}, documented {}", q(ins), dur[j], d));
                            }
                        }
                        None => add("schedule-for-unknown-duration", format!("`{}`", q(ins))),
                    }
                    let mut st = 0.0f64;
                    for i in 0..j {
                        if frame_conflict(&frs[i], &frs[j]) {
                            st = st.max(end_ref[i]);
                        }
                    }
                    if (st - start[j]).abs() > 1e-12 {
                        add("start-not-asap", format!("`{}` (#{j}) starts at {}, expected {}", q(ins), start[j], st));
                    }
                    end_ref[j] = st + dur[j];
                    maxend = maxend.max(end_ref[j]);
                }
                // frame exclusivity, from the reported spans alone
                for i in 0..n {
                    for j in i + 1..n {
                        if frame_conflict(&frs[i], &frs[j]) {
                            let (s1, e1, s2, e2) = (start[i], start[i] + dur[i], start[j], start[j] + dur[j]);
                            let overlap = s1.max(s2) < e1.min(e2) - 1e-12;
                            let inside = (dur[j] == 0.0 && s2 > s1 + 1e-12 && s2 < e1 - 1e-12) || (dur[i] == 0.0 && s1 > s2 + 1e-12 && s1 < e2 - 1e-12);
                            if overlap || inside {
                                add("conflicting-overlap", format!("`{}` [{s1},{e1}) and `{}` [{s2},{e2})", q(b.instructions()[i]), q(b.instructions()[j])));
                            }
                        }
                    }
                }
                if (sched.duration().0 - maxend).abs() > 1e-12 {
                    add("total-duration", format!("schedule duration {} but latest end {}", sched.duration().0, maxend));
                }
            }
        }
    }
    Ok(out)
}

fn build_text(header: &str, menu: &[&str], seq: &[usize], term: &str) -> String {
    let mut s = String::from(header);
    for k in seq {
        s.push_str(menu[*k]);
        s.push('\n');
    }
    if !term.is_empty() {
        s.push_str(term);
        s.push('\n');
    }
    s
}

struct Built {
    header: Program,
    menu: Vec<Instruction>,
    terms: Vec<Option<Instruction>>,
}
fn prebuild(header: &str, menu: &[&str]) -> Built {
    Built {
        header: Program::from_str(header).expect("header"),
        menu: menu.iter().map(|s| Instruction::from_str(s).unwrap_or_else(|e| panic!("menu item {s}: {e}"))).collect(),
        terms: TERMS.iter().map(|s| if s.is_empty() { None } else { Some(Instruction::from_str(s).unwrap()) }).collect(),
    }
}
fn build_prog(b: &Built, seq: &[usize], term: usize) -> Program {
    let mut p = b.header.clone();
    for k in seq {
        p.add_instruction(b.menu[*k].clone());
    }
    if let Some(t) = &b.terms[term] {
        p.add_instruction(t.clone());
    }
    p
}

fn program_sweep(ctx: &mut Ctx, id: &str, which: Which, space: &str, menu: &'static [&'static str], maxlen: usize) {
    program_sweep_h(ctx, id, which, space, HEADER, menu, maxlen)
}
fn program_sweep_h(ctx: &mut Ctx, id: &str, which: Which, space: &str, header: &'static str, menu: &'static [&'static str], maxlen: usize) {
    let built = prebuild(header, menu);
    let mut shrinks = 0usize;
    for len in 0..=maxlen {
        sequences(menu.len(), len, |seq| {
            for (ti, term) in TERMS.iter().enumerate() {
                if !ctx.take(|| json!({"program": build_text(header, menu, seq, term), "space": space})) {
                    continue;
                }
                ctx.transitions += 1;
                let p = build_prog(&built, seq, ti);
                let mut facts = BlockFacts { n_conflicts: 0 };
                match analyze(&p, which, &mut facts) {
                    Err(kind) => ctx.outcome(&format!("{space}:not-schedulable:{kind}")),
                    Ok(vs) => {
                        ctx.outcome(&format!("{space}:checked"));
                        ctx.state(&(space, seq, ti));
                        if facts.n_conflicts > 0 {
                            ctx.nontrivial(&(space, seq, ti));
                        }
                        let mut seen = BTreeSet::new();
                        for (clause, detail) in vs {
                            if !seen.insert(clause.clone()) {
                                continue;
                            }
                            // shrink to a 1-minimal sequence failing the same clause
                            let (small, sterm) = if shrinks < 400 {
                                shrinks += 1;
                                let fails = |s: &[usize]| {
                                    let p = build_prog(&built, s, ti);
                                    let mut f = BlockFacts { n_conflicts: 0 };
                                    analyze(&p, which, &mut f).map(|v| v.iter().any(|(c, _)| *c == clause)).unwrap_or(false)
                                };
                                let s = shrink_idx(seq.to_vec(), &fails);
                                // try dropping the terminator too
                                let p0 = build_prog(&built, &s, 0);
                                let mut f = BlockFacts { n_conflicts: 0 };
                                let t0 = analyze(&p0, which, &mut f).map(|v| v.iter().any(|(c, _)| *c == clause)).unwrap_or(false);
                                (Some(s), if t0 { 0 } else { ti })
                            } else {
                                (None, ti)
                            };
                            let (fp, case) = match small {
                                Some(s) => {
                                    let mut lines: Vec<&str> = s.iter().map(|k| menu[*k]).collect();
                                    if !TERMS[sterm].is_empty() {
                                        lines.push(TERMS[sterm]);
                                    }
                                    (format!("{id}:{clause}:{}", lines.join("; ")), json!({"program": build_text(header, menu, &s, TERMS[sterm]), "space": space}))
                                }
                                None => (format!("{id}:{clause}:(unshrunk)"), json!({"program": build_text(header, menu, seq, term), "space": space})),
                            };
                            ctx.report(viol(&clause, fp, case, format!("{detail} in program: {}", build_text("", menu, seq, term).replace('\n', "; "))));
                        }
                    }
                }
            }
        });
        if !ctx.is_capped() {
            ctx.bound(&format!("{space}_completed_length"), json!(len));
        }
    }
}

fn replay_program(id: &str, which: Which, case: &Value) -> Vec<Viol> {
    let Some(text) = case["program"].as_str() else { return vec![] };
    let Ok(p) = Program::from_str(text) else { return vec![] };
    let mut facts = BlockFacts { n_conflicts: 0 };
    let mut out = vec![];
    if let Ok(vs) = analyze(&p, which, &mut facts) {
        let body = text.strip_prefix(HEADER).unwrap_or(text).trim_end().replace('\n', "; ");
        let mut seen = BTreeSet::new();
        for (clause, detail) in vs {
            if seen.insert(clause.clone()) {
                out.push(viol(&clause, format!("{id}:{clause}:{body}"), case.clone(), detail));
            }
        }
    }
    out
}

// ---------------------------------------------------------------------------------------------
// queue level (hook)

use quil_rs::program::scheduling::verif_hooks::{FrameQueue, InstructionFrameInteraction, MemoryQueue};
type N = ScheduledGraphNode;
fn node(i: usize) -> N {
    if i == 0 {
        N::BlockStart
    } else {
        N::InstructionIndex(i - 1)
    }
}
fn idx(n: N) -> usize {
    match n {
        N::BlockStart => 0,
        N::InstructionIndex(i) => i + 1,
        N::BlockEnd => usize::MAX,
    }
}

/// Drive `nq` real queues with the actions in `acts` (action k = per-queue access kind, 0 = none),
/// returning per action the union of reported dependencies (with kinds for memory) and the final
/// pending set per queue.
/// kinds: memory 1=Read 2=Write 3=Capture ; frames 1=Blocking 2=Using
fn drive(frames: bool, nq: usize, acts: &[Vec<u8>]) -> (Vec<Vec<BTreeSet<usize>>>, Vec<BTreeSet<usize>>, bool) {
    let mut kinds_ok = true;
    let mut deps: Vec<Vec<BTreeSet<usize>>> = vec![];
    let mut pend = vec![];
    if frames {
        let mut qs: Vec<FrameQueue> = (0..nq).map(|_| FrameQueue::new()).collect();
        for (k, a) in acts.iter().enumerate() {
            let mut per = vec![BTreeSet::new(); nq];
            for (qi, kind) in a.iter().enumerate() {
                if *kind == 0 {
                    continue;
                }
                let t = if *kind == 2 { InstructionFrameInteraction::Using } else { InstructionFrameInteraction::Blocking };
                per[qi] = qs[qi].record(node(k + 1), t).into_iter().map(idx).collect();
            }
            deps.push(per);
        }
        for qu in qs {
            pend.push(qu.into_pending().into_iter().map(idx).collect());
        }
    } else {
        let mut qs: Vec<MemoryQueue> = (0..nq).map(|_| MemoryQueue::new()).collect();
        let ty = |k: u8| match k {
            1 => MemoryAccessType::Read,
            2 => MemoryAccessType::Write,
            _ => MemoryAccessType::Capture,
        };
        for (k, a) in acts.iter().enumerate() {
            let mut per = vec![BTreeSet::new(); nq];
            for (qi, kind) in a.iter().enumerate() {
                if *kind == 0 {
                    continue;
                }
                let got = qs[qi].record(node(k + 1), ty(*kind));
                for (t, nd) in &got {
                    let i = idx(*nd);
                    // the reported access type is the one the dependency performed on this queue
                    if i == 0 || i > acts.len() || ty(acts[i - 1][qi]) != *t || acts[i - 1][qi] == 0 {
                        kinds_ok = false;
                    }
                }
                per[qi] = got.into_iter().map(|(_, nd)| idx(nd)).collect();
            }
            deps.push(per);
        }
        for qu in qs {
            let pd = qu.into_pending();
            for (t, nd) in &pd {
                let i = idx(*nd);
                if i == 0 || i > acts.len() || ty(acts[i - 1][qi_of(&pend)]) != *t {
                    kinds_ok = false;
                }
            }
            pend.push(pd.into_iter().map(|(_, nd)| idx(nd)).collect());
        }
    }
    (deps, pend, kinds_ok)
}
fn qi_of(pend: &[BTreeSet<usize>]) -> usize {
    pend.len()
}

fn queue_check(frames: bool, nq: usize, acts: &[Vec<u8>]) -> Vec<(String, String)> {
    let mut out = vec![];
    let r = catch(|| drive(frames, nq, acts));
    let (deps, pend, kinds_ok) = match r {
        Ok(x) => x,
        Err(p) => return vec![("queue-panic".into(), p)],
    };
    if !kinds_ok {
        out.push(("queue-dependency-kind".into(), "a reported dependency carries the wrong access type".into()));
    }
    let nn = acts.len();
    let is_write = |i: usize, qi: usize| if i == 0 { frames } else { acts[i - 1][qi] >= 2 };
    let touches = |i: usize, qi: usize| if i == 0 { frames } else { acts[i - 1][qi] != 0 };
    // reference queue model per queue
    let mut adj = vec![vec![false; nn + 1]; nn + 1];
    for qi in 0..nq {
        let mut write: Option<usize> = if frames { Some(0) } else { None };
        let mut reads: BTreeSet<usize> = BTreeSet::new();
        for k in 1..=nn {
            let kind = acts[k - 1][qi];
            if kind == 0 {
                if !deps[k - 1][qi].is_empty() {
                    out.push(("queue-deps".into(), format!("queue {qi}: action {k} made no access but has dependencies")));
                }
                continue;
            }
            let mut want: BTreeSet<usize> = write.into_iter().collect();
            if kind >= 2 {
                want.extend(reads.iter().cloned());
                reads.clear();
                write = Some(k);
            } else {
                reads.insert(k);
            }
            if deps[k - 1][qi] != want {
                out.push(("queue-deps".into(), format!("queue {qi}: action {k} got dependencies {:?}, reference {:?}", deps[k - 1][qi], want)));
            }
            for d in &deps[k - 1][qi] {
                if *d <= nn {
                    // justified: backwards, never self, never read->read
                    if *d >= k {
                        out.push(("queue-dep-not-backwards".into(), format!("queue {qi}: action {k} depends on {d}")));
                    } else {
                        if !(is_write(*d, qi) || kind >= 2) || !touches(*d, qi) {
                            out.push(("queue-dep-unjustified".into(), format!("queue {qi}: action {k} depends on {d} but the pair does not conflict")));
                        }
                        adj[*d][k] = true;
                    }
                }
            }
        }
        let want_p: BTreeSet<usize> = write.into_iter().chain(reads.iter().cloned()).collect();
        if pend[qi] != want_p {
            out.push(("queue-pending".into(), format!("queue {qi}: pending {:?}, reference {:?}", pend[qi], want_p)));
        }
    }
    // sequential consistency on the union graph, from the *reported* dependencies only
    let mut c = adj.clone();
    for k in 0..=nn {
        for i in 0..=nn {
            if c[i][k] {
                for j in 0..=nn {
                    if c[k][j] {
                        c[i][j] = true;
                    }
                }
            }
        }
    }
    for i in 0..=nn {
        for j in i + 1..=nn {
            let conflict = (0..nq).any(|qi| touches(i, qi) && touches(j, qi) && (is_write(i, qi) || is_write(j, qi)));
            if conflict && !c[i][j] {
                out.push(("queue-not-sequentially-consistent".into(), format!("actions {i} < {j} conflict but {j} does not depend on {i}")));
            }
        }
    }
    // pending exactness: an action nobody depends on (on a queue) must be pending there
    for qi in 0..nq {
        for i in 1..=nn {
            if !touches(i, qi) {
                continue;
            }
            let depended = (i + 1..=nn).any(|j| deps[j - 1][qi].contains(&i));
            if !depended && !pend[qi].contains(&i) {
                out.push(("queue-pending-lost".into(), format!("queue {qi}: action {i} has no dependant and is not pending")));
            }
        }
    }
    out
}

fn queue_sweep(ctx: &mut Ctx, id: &str, frames: bool) {
    let nk: usize = if frames { 2 } else { 3 };
    let name = if frames { "frame-queue" } else { "memory-queue" };
    // single queue
    let l1 = ctx.tier.pick(8, 11);
    for len in 0..=l1 {
        sequences(nk, len, |s| {
            let acts: Vec<Vec<u8>> = s.iter().map(|k| vec![*k as u8 + 1]).collect();
            if !ctx.take(|| json!({"queue": name, "queues": 1, "actions": acts})) {
                return;
            }
            ctx.transitions += 1;
            ctx.traces += 1;
            ctx.state(&(name, 1, &acts));
            if len >= 2 {
                ctx.nontrivial(&(name, 1, &acts));
            }
            ctx.outcome(&format!("{name}:1-queue"));
            report_queue(ctx, id, frames, 1, &acts);
        });
    }
    ctx.bound(&format!("{name}_single_max_len"), json!(l1));
    // two interleaved queues: each action accesses a non-empty subset of the two queues
    let l2 = ctx.tier.pick(4, 5);
    let per: Vec<Vec<u8>> = {
        let mut v = vec![];
        for a in 0..=nk as u8 {
            for b in 0..=nk as u8 {
                if a != 0 || b != 0 {
                    v.push(vec![a, b]);
                }
            }
        }
        v
    };
    for len in 1..=l2 {
        sequences(per.len(), len, |s| {
            let acts: Vec<Vec<u8>> = s.iter().map(|k| per[*k].clone()).collect();
            if !ctx.take(|| json!({"queue": name, "queues": 2, "actions": acts})) {
                return;
            }
            ctx.transitions += 1;
            ctx.traces += 1;
            ctx.state(&(name, 2, &acts));
            ctx.nontrivial(&(name, 2, &acts));
            ctx.outcome(&format!("{name}:2-queues"));
            report_queue(ctx, id, frames, 2, &acts);
        });
    }
    ctx.bound(&format!("{name}_two_queue_max_len"), json!(l2));
}

fn report_queue(ctx: &mut Ctx, id: &str, frames: bool, nq: usize, acts: &[Vec<u8>]) {
    let vs = queue_check(frames, nq, acts);
    let mut seen = BTreeSet::new();
    for (clause, detail) in vs {
        if !seen.insert(clause.clone()) {
            continue;
        }
        let fails = |s: &[Vec<u8>]| queue_check(frames, nq, s).iter().any(|(c, _)| *c == clause);
        let small = shrink_list(acts.to_vec(), &fails);
        let name = if frames { "frame-queue" } else { "memory-queue" };
        ctx.report(viol(&clause, format!("{id}:{clause}:{small:?}"), json!({"queue": name, "queues": nq, "actions": small}), detail));
    }
}

fn replay_queue(id: &str, case: &Value) -> Vec<Viol> {
    let frames = case["queue"].as_str() == Some("frame-queue");
    let nq = case["queues"].as_u64().unwrap_or(1) as usize;
    let acts: Vec<Vec<u8>> = case["actions"]
        .as_array()
        .map(|a| a.iter().map(|x| x.as_array().map(|y| y.iter().map(|z| z.as_u64().unwrap_or(0) as u8).collect()).unwrap_or_default()).collect())
        .unwrap_or_default();
    let mut seen = BTreeSet::new();
    queue_check(frames, nq, &acts)
        .into_iter()
        .filter(|(c, _)| seen.insert(c.clone()))
        .map(|(c, d)| viol(&c, format!("{id}:{c}:{acts:?}"), case.clone(), d))
        .collect()
}

// ---------------------------------------------------------------------------------------------
// E4: TLA+ model checked by TLC, every model state replayed on the real queue (conformance)

fn tla_field(label: &str, var: &str) -> Option<String> {
    let key = format!("{var} = ");
    let i = label.find(&key)?;
    let rest = &label[i + key.len()..];
    // a long value is wrapped over several lines; the field ends where the next conjunct starts
    let end = rest.find("\\n/\\\\").unwrap_or(rest.len());
    Some(rest[..end].replace("\\n", " "))
}
fn tla_sets(s: &str) -> Vec<BTreeSet<usize>> {
    let inner = s.trim().trim_start_matches("<<").trim_end_matches(">>");
    let mut out = vec![];
    let mut cur = String::new();
    let mut depth = 0;
    for c in inner.chars() {
        match c {
            '{' => {
                depth += 1;
                cur.clear();
            }
            '}' => {
                depth -= 1;
                out.push(cur.split(',').filter_map(|x| x.trim().parse().ok()).collect());
            }
            _ => {
                if depth > 0 {
                    cur.push(c);
                }
            }
        }
    }
    out
}
fn tla_set(s: &str) -> BTreeSet<usize> {
    s.trim().trim_start_matches('{').trim_end_matches('}').split(',').filter_map(|x| x.trim().parse().ok()).collect()
}

/// Run TLC on tla/DependencyQueue.tla (all invariants), dump the complete state graph and replay
/// every state's history on the real DependencyQueue through the hook.
fn tlc_conform(ctx: &mut Ctx, id: &str, frames: bool) {
    if ctx.shard != 0 {
        return;
    }
    ctx.outside_case();
    let name = if frames { "frames" } else { "memory" };
    let maxlen = if frames { ctx.tier.pick(8, 11) } else { ctx.tier.pick(6, 8) };
    let dir = std::path::PathBuf::from(format!("{}/target/tla/{id}-{}", verif_dir(), ctx.tier.name()));
    let _ = std::fs::remove_dir_all(&dir);
    std::fs::create_dir_all(&dir).expect("tla dir");
    let cfg = if frames {
        format!("CONSTANTS\n  MaxLen = {maxlen}\n  Kinds = {{\"B\", \"U\"}}\n  WriteKinds = {{\"U\"}}\n  HasInitialWriter = TRUE\nSPECIFICATION Spec\nINVARIANTS TypeOK SequentiallyConsistent Justified Rooted PendingExact\nCHECK_DEADLOCK FALSE\n")
    } else {
        format!("CONSTANTS\n  MaxLen = {maxlen}\n  Kinds = {{\"R\", \"W\", \"C\"}}\n  WriteKinds = {{\"W\", \"C\"}}\n  HasInitialWriter = FALSE\nSPECIFICATION Spec\nINVARIANTS TypeOK SequentiallyConsistent Justified Rooted PendingExact\nCHECK_DEADLOCK FALSE\n")
    };
    std::fs::write(dir.join("DependencyQueue.cfg"), cfg).expect("cfg");
    std::fs::copy(format!("{}/tla/DependencyQueue.tla", verif_dir()), dir.join("DependencyQueue.tla")).expect("copy spec");
    let dot = dir.join("graph.dot");
    use std::os::unix::process::CommandExt;
    let mut cmd = std::process::Command::new("tlc");
    // the worker's address-space limit is meant for the subject, not for the JVM
    unsafe {
        cmd.pre_exec(|| {
            let lim = libc::rlimit { rlim_cur: libc::RLIM_INFINITY, rlim_max: libc::RLIM_INFINITY };
            libc::setrlimit(libc::RLIMIT_AS, &lim);
            Ok(())
        });
    }
    let out = cmd
        .current_dir(&dir)
        .args(["-workers", "4", "-config", "DependencyQueue.cfg", "-dump", "dot,actionlabels", dot.to_str().unwrap(), "DependencyQueue.tla"])
        .output()
        .unwrap_or_else(|e| panic!("cannot run tlc: {e}"));
    let text = String::from_utf8_lossy(&out.stdout).to_string();
    if !text.contains("Model checking completed. No error has been found.") {
        if text.contains("Invariant") && text.contains("is violated") {
            let inv = text.lines().find(|l| l.contains("is violated")).unwrap_or("").to_string();
            ctx.report(viol("tla-invariant-violated", format!("{id}:tla-invariant-violated:{name}"), json!({"tla": name, "max_len": maxlen}), format!("TLC: {inv}")));
            return;
        }
        panic!("tlc did not complete: {}", text.lines().rev().take(6).collect::<Vec<_>>().join(" | "));
    }
    // final summary line: "<n> states generated, <m> distinct states found, 0 states left on queue."
    let distinct: u64 = text
        .lines()
        .filter(|l| l.contains("distinct states found") && l.contains("states left on queue"))
        .last()
        .and_then(|l| l.split(" states generated, ").nth(1))
        .and_then(|r| r.split(' ').next())
        .and_then(|n| n.replace(',', "").parse().ok())
        .unwrap_or(0);
    let graph = std::fs::read_to_string(&dot).expect("dot dump");
    let mut states = 0u64;
    let mut edges = 0u64;
    let mut bad: Vec<String> = vec![];
    for line in graph.lines() {
        if line.contains("->") {
            edges += 1;
            continue;
        }
        let Some(li) = line.find("[label=\"") else { continue };
        let raw = &line[li + 8..];
        let b = raw.as_bytes();
        let mut end = raw.len();
        let mut i = 0;
        while i < b.len() {
            if b[i] == b'\\' {
                i += 2;
                continue;
            }
            if b[i] == b'"' {
                end = i;
                break;
            }
            i += 1;
        }
        let label = &raw[..end];
        let Some(h) = tla_field(label, "hist") else { continue };
        let kinds: Vec<String> = h.trim().trim_start_matches("<<").trim_end_matches(">>").split(',').map(|x| x.trim().trim_matches(|c| c == '\\' || c == '"').to_string()).filter(|x| !x.is_empty()).collect();
        let deps = tla_sets(&tla_field(label, "deps").unwrap_or_default());
        let write = tla_set(&tla_field(label, "write").unwrap_or_default());
        let reads = tla_set(&tla_field(label, "reads").unwrap_or_default());
        if deps.len() != kinds.len() {
            panic!("cannot parse TLC state label: {label}");
        }
        states += 1;
        let acts: Vec<Vec<u8>> = kinds
            .iter()
            .map(|k| {
                vec![match (frames, k.as_str()) {
                    (true, "U") => 2u8,
                    (true, _) => 1,
                    (false, "R") => 1,
                    (false, "W") => 2,
                    (false, _) => 3,
                }]
            })
            .collect();
        let (got_deps, got_pend, kinds_ok) = match catch(|| drive(frames, 1, &acts)) {
            Ok(x) => x,
            Err(p) => {
                bad.push(format!("hist {h}: real queue panicked: {p}"));
                continue;
            }
        };
        let mut ok = kinds_ok;
        for (k, d) in deps.iter().enumerate() {
            if got_deps[k][0] != *d {
                ok = false;
            }
        }
        let want_p: BTreeSet<usize> = write.union(&reads).cloned().collect();
        if got_pend[0] != want_p {
            ok = false;
        }
        if !ok && bad.len() < 5 {
            bad.push(format!("model state hist={h} deps={:?} pending={want_p:?}; real queue deps={:?} pending={:?}", deps, got_deps.iter().map(|x| x[0].clone()).collect::<Vec<_>>(), got_pend[0]));
        } else if !ok {
            bad.push(String::new());
        }
    }
    if states != distinct {
        panic!("dot dump has {states} states but TLC reported {distinct}");
    }
    ctx.evals += states;
    ctx.states += states;
    ctx.transitions += edges;
    ctx.traces += states;
    ctx.outcome(&format!("tlc-{name}:states-replayed"));
    *ctx.outcomes.get_mut(&format!("tlc-{name}:states-replayed")).unwrap() = states;
    ctx.bound(&format!("tlc_{name}"), json!({"max_len": maxlen, "tlc_distinct_states": distinct, "tlc_edges": edges, "states_replayed_on_real_queue": states, "invariants": ["TypeOK", "SequentiallyConsistent", "Justified", "Rooted", "PendingExact"], "mismatches": bad.len()}));
    ctx.sample(json!({"tlc_model": name, "example_state": "hist = <<\"W\", \"R\", \"R\", \"W\">> replayed on the real DependencyQueue"}));
    if !bad.is_empty() {
        ctx.report(viol("tla-conformance", format!("{id}:tla-conformance:{name}"), json!({"tla": name, "max_len": maxlen}), format!("{} of {states} TLC model states are not reproduced by the real DependencyQueue; first: {}", bad.len(), bad[0])));
    }
    let _ = std::fs::remove_dir_all(&dir);
}

fn replay_tla(id: &str, case: &Value) -> Vec<Viol> {
    // re-run the conformance step in a throw-away context
    let frames = case["tla"].as_str() == Some("frames");
    let r = catch(|| {
        let mut vs = vec![];
        // drive every history up to max_len directly against the reference queue model (same content as the TLC graph)
        let maxlen = case["max_len"].as_u64().unwrap_or(6) as usize;
        let nk = if frames { 2 } else { 3 };
        for len in 0..=maxlen.min(8) {
            sequences(nk, len, |s| {
                let acts: Vec<Vec<u8>> = s.iter().map(|k| vec![*k as u8 + 1]).collect();
                if vs.is_empty() && !queue_check(frames, 1, &acts).is_empty() {
                    vs.push(viol("tla-conformance", format!("{id}:tla-conformance:{}", if frames { "frames" } else { "memory" }), case.clone(), format!("history {acts:?} is not reproduced by the real queue")));
                }
            });
        }
        vs
    });
    r.unwrap_or_default()
}

// ---------------------------------------------------------------------------------------------
// C25 calibrated part

const CAL_HEAD: &str = "DEFFRAME 0 \"a\":\n    SAMPLE-RATE: 1.0\nDEFFRAME 1 \"a\":\n    SAMPLE-RATE: 1.0\nDEFFRAME 0 1 \"c\":\n    SAMPLE-RATE: 1.0\n";
const CAL_BODIES: &[&str] = &[
    "PULSE q \"a\" flat(duration: 1.0, iq: 1)",
    "NONBLOCKING PULSE q \"a\" flat(duration: 2.0, iq: 1)",
    "FENCE q",
    "DELAY q 0.5",
    "SET-PHASE q \"a\" 1.0",
    "Y q",
    "NONBLOCKING PULSE 0 1 \"c\" flat(duration: 3.0, iq: 1)",
];
const CAL_Y: &[&str] = &["PULSE q \"a\" flat(duration: 0.25, iq: 1)", "FENCE q\n    DELAY q 0.75"];
const CAL_INV: &[&str] = &[
    "X 0",
    "X 1",
    "Y 0",
    "Y 1",
    "PULSE 0 1 \"c\" flat(duration: 1.0, iq: 1)",
    "FENCE",
    "DELAY 1 1.5",
    "NONBLOCKING PULSE 0 \"a\" flat(duration: 2.0, iq: 1)",
];

fn cal_check(text: &str) -> (bool, Vec<(String, String)>) {
    let mut out = vec![];
    let Ok(p) = Program::from_str(text) else { return (false, vec![]) };
    let r = catch(|| {
        let blocks = ControlFlowGraph::from(&p).into_blocks();
        if blocks.len() != 1 {
            return None;
        }
        let blk: &BasicBlock = &blocks[0];
        let r1 = blk.as_schedule_seconds(&p, &DefaultHandler).ok();
        let r2 = p.expand_calibrations_with_source_map().ok().and_then(|(e, sm)| {
            let sp = ScheduledProgram::from_program(&e, &DefaultHandler).ok()?;
            let b = sp.basic_blocks().first()?;
            let s = b.as_schedule_seconds(&e, &DefaultHandler).ok()?;
            let items: Vec<(usize, f64, f64)> = s.items().iter().map(|it| (it.instruction_index, it.time_span.start_time().0, it.time_span.start_time().0 + it.time_span.duration().0)).collect();
            let entries: Vec<(usize, Vec<usize>)> = sm
                .entries()
                .iter()
                .map(|en| {
                    let idxs: Vec<usize> = match en.target_location() {
                        ExpansionResult::Unmodified(i) => vec![i.0],
                        ExpansionResult::Rewritten(r) => (r.range().start.0..r.range().end.0).collect(),
                    };
                    (en.source_location().0, idxs)
                })
                .collect();
            Some((items, entries, s.duration().0))
        });
        let r1 = r1.map(|s| (s.items().iter().map(|it| (it.instruction_index, it.time_span.start_time().0, it.time_span.start_time().0 + it.time_span.duration().0)).collect::<Vec<_>>(), s.duration().0));
        Some((r1, r2))
    });
    let (r1, r2) = match r {
        Err(pan) => return (false, vec![("cal-panic".into(), pan)]),
        Ok(None) => return (false, vec![]),
        Ok(Some(x)) => x,
    };
    match (r1, r2) {
        (Some((items1, dur1)), Some((items, entries, dur))) => {
            let by: BTreeMap<usize, (f64, f64)> = items.iter().map(|(i, s, e)| (*i, (*s, *e))).collect();
            for (src_i, idxs) in &entries {
                if idxs.iter().any(|i| !by.contains_key(i)) {
                    out.push(("cal-span".into(), format!("source instruction {src_i}: expansion target without schedule item")));
                    continue;
                }
                let lo = idxs.iter().map(|i| by[i].0).fold(f64::INFINITY, f64::min);
                let hi = idxs.iter().map(|i| by[i].1).fold(f64::NEG_INFINITY, f64::max);
                match items1.iter().find(|it| it.0 == *src_i) {
                    None => {
                        if !idxs.is_empty() {
                            out.push(("cal-missing-item".into(), format!("source instruction {src_i} has no schedule item")))
                        }
                    }
                    Some((_, s, e)) => {
                        if !idxs.is_empty() && ((s - lo).abs() > 1e-12 || (e - hi).abs() > 1e-12) {
                            out.push(("cal-span".into(), format!("source instruction {src_i}: span [{s},{e}) but its expansion covers [{lo},{hi})")));
                        }
                    }
                }
            }
            let mut cnt: BTreeMap<usize, usize> = BTreeMap::new();
            for it in &items1 {
                *cnt.entry(it.0).or_default() += 1;
            }
            if cnt.values().any(|c| *c != 1) {
                out.push(("cal-item-count".into(), format!("{cnt:?}")));
            }
            if (dur1 - dur).abs() > 1e-12 {
                out.push(("cal-duration".into(), format!("block schedule duration {dur1}, expanded program {dur}")));
            }
            (true, out)
        }
        (None, None) => (false, out),
        (Some(_), None) => (false, vec![("cal-only-block-schedulable".into(), "block schedule computed but the expanded program does not schedule".into())]),
        (None, Some(_)) => (false, vec![("cal-only-expanded-schedulable".into(), "expanded program schedules but the block schedule fails".into())]),
    }
}

fn cal_sweep(ctx: &mut Ctx) {
    let third: Vec<&str> = CAL_INV.iter().cloned().chain(std::iter::once("")).collect();
    let second_body: Vec<&str> = CAL_BODIES.iter().cloned().chain(std::iter::once("")).collect();
    let ninv = if ctx.tier == Tier::Quick { 6 } else { CAL_INV.len() };
    for a in CAL_BODIES {
        for b in &second_body {
            for yb in CAL_Y {
                let cal = format!("DEFCAL X q:\n    {a}\n{}DEFCAL Y q:\n    {yb}\n", if b.is_empty() { String::new() } else { format!("    {b}\n") });
                for i1 in &CAL_INV[..ninv] {
                    for i2 in &CAL_INV[..ninv] {
                        for i3 in &third {
                            let text = format!("{CAL_HEAD}{cal}{i1}\n{i2}\n{i3}\n");
                            if !ctx.take(|| json!({"calibrated_program": text})) {
                                continue;
                            }
                            ctx.transitions += 1;
                            let (scheduled, vs) = cal_check(&text);
                            if scheduled {
                                ctx.nontrivial(&text);
                                ctx.state(&text);
                                ctx.outcome("calibrated:scheduled");
                            } else {
                                ctx.outcome("calibrated:not-schedulable");
                            }
                            let mut seen = BTreeSet::new();
                            for (clause, detail) in vs {
                                if seen.insert(clause.clone()) {
                                    ctx.report(viol(&clause, format!("C25:{clause}:{}|{}|{}", a, b, yb.replace('\n', ";")), json!({"calibrated_program": text}), detail));
                                }
                            }
                        }
                    }
                }
            }
        }
    }
}

// ---------------------------------------------------------------------------------------------

const ASSUME: &[&str] = &[
    "reference frame rules (mc/src/refm.rs ref_frames) and memory table (ref_mem) are transcribed from the property statements C26/C27 and are checked against the code by C26/C27 themselves",
    "bounded: menus and lengths listed under coverage; programs outside them are not covered",
];

pub static C22: PropDef = PropDef {
    id: "C22",
    level: "model_checking",
    engine: "sweep",
    rule: "every instruction sequence of length <= 3 (thorough 5) over the 28-instruction frame/classical/control-flow menu and over the 22-instruction memory menu x 3 terminators, built on a fixed 4-frame header, and of length <= 4 (5) over a 10-instruction menu on a second header whose qubits 0 and 1 have only a shared two-qubit frame (RESET q / FENCE q / DELAY q use nothing there and only block); each is scheduled by the real ScheduledProgram and every block's graph is checked (edges forward, acyclic, rooted, reaches end). state = a schedulable program; non-trivial = schedulable program with at least one instruction-to-instruction edge (distinct by sequence)",
    assumptions: ASSUME,
    run: |ctx| {
        let l = ctx.tier.pick(3, 5);
        ctx.bound("menu", json!(MENU_F));
        ctx.bound("terminators", json!(TERMS));
        program_sweep(ctx, "C22", Which::C22, "frames", MENU_F, l);
        let lm = ctx.tier.pick(3, 5);
        program_sweep(ctx, "C22", Which::C22, "memory", MENU_M, lm);
        ctx.bound("menu_blocked_only", json!(MENU_B));
        program_sweep_h(ctx, "C22", Which::C22, "blocked-only", HEADER_B, MENU_B, ctx.tier.pick(4, 5));
        ctx.traces = ctx.evals;
    },
    replay: |c| replay_program("C22", Which::C22, c),
    caps: (50, 5000),
};

pub static C23: PropDef = PropDef {
    id: "C23",
    level: "model_checking",
    engine: "queue",
    rule: "(A) every sequence of length <= 3 (thorough 5) over a 22-instruction memory menu (regions a,b: every access shape incl. comparisons / STORE with immediates and CALL with a mutable and an immutable parameter, two captures into one region on disjoint non-blocking frames) and of length <= 2 (4) over the 28-instruction general menu, x 3 terminators, scheduled by the real code; (B) every access sequence (Read/Write/Capture) of length <= 8 (11 thorough) on one real DependencyQueue and every sequence of <= 4 (5) multi-queue actions on two queues, through the hook; (C) a TLA+ model of the queue (tla/DependencyQueue.tla) checked by TLC for TypeOK, SequentiallyConsistent, Justified, Rooted, PendingExact over all histories of length <= 6 (8), with EVERY state of TLC's dumped graph replayed on the real queue (conformance). non-trivial = program with >= 1 conflicting memory pair / queue sequence of length >= 2",
    assumptions: ASSUME,
    run: |ctx| {
        ctx.bound("menu_memory", json!(MENU_M));
        let lm = ctx.tier.pick(3, 5);
        program_sweep(ctx, "C23", Which::C23, "memory", MENU_M, lm);
        let lf = ctx.tier.pick(2, 4);
        program_sweep(ctx, "C23", Which::C23, "frames", MENU_F, lf);
        queue_sweep(ctx, "C23", false);
        tlc_conform(ctx, "C23", false);
    },
    replay: |c| if c.get("tla").is_some() { replay_tla("C23", c) } else if c.get("queue").is_some() { replay_queue("C23", c) } else { replay_program("C23", Which::C23, c) },
    caps: (50, 5000),
};

pub static C24: PropDef = PropDef {
    id: "C24",
    level: "model_checking",
    engine: "queue",
    rule: "(A) every sequence of length <= 3 (thorough 5) over the 28-instruction general menu x 3 terminators on a 4-frame header (overlapping qubit sets; blocking and non-blocking pulses, captures, delays, fences, phase/frequency updates, reset), scheduled by the real code and compared with the reference frame rules; (B) every Blocking/Using sequence of length <= 8 (11) on one real frame DependencyQueue (implicit BlockStart writer) and <= 4 (5) actions on two queues, through the hook; (C) the TLA+ queue model with the initial BlockStart writer checked by TLC over all histories of length <= 8 (11), every model state replayed on the real frame queue (conformance). non-trivial = program with >= 1 conflicting frame pair",
    assumptions: ASSUME,
    run: |ctx| {
        ctx.bound("menu", json!(MENU_F));
        let l = ctx.tier.pick(3, 5);
        program_sweep(ctx, "C24", Which::C24, "frames", MENU_F, l);
        queue_sweep(ctx, "C24", true);
        tlc_conform(ctx, "C24", true);
    },
    replay: |c| if c.get("tla").is_some() { replay_tla("C24", c) } else if c.get("queue").is_some() { replay_queue("C24", c) } else { replay_program("C24", Which::C24, c) },
    caps: (50, 5000),
};

pub static C25: PropDef = PropDef {
    id: "C25",
    level: "model_checking",
    engine: "sweep",
    rule: "(A) every sequence of length <= 4 (thorough 6) over a 20-instruction timed menu (known durations: template waveforms, erf_square with both pads / only a left pad / only a right pad, one DEFWAVEFORM played on two frames with different SAMPLE-RATEs, DELAY, RAW-CAPTURE, zero-length updates) and of length <= 2 (3) over the 28-instruction general menu, scheduled in seconds by the real code and compared with the reference ASAP schedule: every timed instruction exactly once, documented duration, start = latest end of its timed predecessors, no overlap between instructions where one uses a frame the other uses or blocks, duration = latest end; (B) programs = 2 calibrations (7 x 8 x 2 bodies) x 2-3 invocations, block schedule vs schedule of the expanded program through the source map. non-trivial = program whose schedule was computed",
    assumptions: ASSUME,
    run: |ctx| {
        ctx.bound("menu_timed", json!(MENU_T));
        let l = ctx.tier.pick(4, 6);
        program_sweep(ctx, "C25", Which::C25, "timed", MENU_T, l);
        let lf = ctx.tier.pick(2, 3);
        program_sweep(ctx, "C25", Which::C25, "frames", MENU_F, lf);
        cal_sweep(ctx);
        ctx.traces = ctx.evals;
    },
    replay: |c| {
        if let Some(t) = c["calibrated_program"].as_str() {
            let mut seen = BTreeSet::new();
            cal_check(t).1.into_iter().filter(|(cl, _)| seen.insert(cl.clone())).map(|(cl, d)| viol(&cl, format!("C25:{cl}:replay"), c.clone(), d)).collect()
        } else {
            replay_program("C25", Which::C25, c)
        }
    },
    caps: (50, 5000),
};
