//! C16 (calibration lookup precedence), C17 (expansion is a complete faithful substitution),
//! C18 (expansion terminates without crashing), C19 (calibration source map).
use crate::engine::*;
use crate::util::*;
use quil_rs::expression::*;
use quil_rs::instruction::*;
use quil_rs::program::{CalibrationExpansion, CalibrationSource, ExpansionResult, InstructionIndex, ProgramError, SourceMap};
use quil_rs::quil::Quil;
use quil_rs::Program;
use serde_json::{json, Value};
use std::collections::{BTreeSet, HashMap};
use std::str::FromStr;

// ------------------------------------------------------------------------------------------ C16

#[derive(Clone, Debug)]
struct Def {
    name: &'static str,
    dag: bool,
    /// comma separated parameter list ("%t", "0.5", "%t, 0.5", ...)
    param: Option<&'static str>,
    qs: Vec<&'static str>,
}
fn sig(d: &Def) -> String {
    format!("{}{}{} {}", if d.dag { "DAGGER " } else { "" }, d.name, d.param.map(|p| format!("({p})")).unwrap_or_default(), d.qs.join(" "))
}
fn c16_defs() -> Vec<Def> {
    let mut defs: Vec<Def> = vec![];
    for dag in [false, true] {
        for q in ["0", "1", "q"] {
            defs.push(Def { name: "X", dag, param: None, qs: vec![q] });
        }
    }
    for p in ["%t", "0.5", "1.5"] {
        for q in ["0", "q"] {
            defs.push(Def { name: "RX", dag: false, param: Some(p), qs: vec![q] });
        }
    }
    for qs in [["0", "1"], ["q", "1"], ["0", "r"], ["q", "r"], ["1", "0"]] {
        defs.push(Def { name: "CZ", dag: false, param: None, qs: qs.to_vec() });
    }
    // two parameters: fixed and variable in either position
    for p in ["%s, %t", "0.5, %t", "%s, 0.5", "0.5, 0.5"] {
        defs.push(Def { name: "U", dag: false, param: Some(p), qs: vec!["q"] });
    }
    defs
}
type GateQ = (String, &'static str, bool, Option<&'static str>, Vec<&'static str>);
fn c16_gates() -> Vec<GateQ> {
    let mut g: Vec<GateQ> = vec![];
    for dag in [false, true] {
        for q in ["0", "1", "2", "q"] {
            g.push((format!("{}X {q}", if dag { "DAGGER " } else { "" }), "X", dag, None, vec![q]));
        }
    }
    for p in ["0.5", "1.5", "2.5", "%t"] {
        for q in ["0", "1"] {
            g.push((format!("RX({p}) {q}"), "RX", false, Some(p), vec![q]));
        }
    }
    for qs in [["0", "1"], ["1", "0"], ["0", "2"], ["2", "1"], ["q", "1"]] {
        g.push((format!("CZ {} {}", qs[0], qs[1]), "CZ", false, None, qs.to_vec()));
    }
    for p in ["0.5, 0.5", "0.5, 1.5", "1.5, 0.5", "1.5, 1.5"] {
        g.push((format!("U({p}) 0"), "U", false, Some(p), vec!["0"]));
    }
    g.push(("U(0.5) 0".into(), "U", false, Some("0.5"), vec!["0"]));
    g.push(("X 0 1".into(), "X", false, None, vec!["0", "1"]));
    g.push(("RX 0".into(), "RX", false, None, vec!["0"]));
    g.push(("CONTROLLED X 1 0".into(), "X", false, None, vec!["1", "0", "<controlled>"]));
    g
}
fn is_fixed(q: &str) -> bool {
    q.chars().next().unwrap().is_ascii_digit()
}

fn c16_gate_check(defs: &[Def], gates: &[GateQ], l: &[usize]) -> Vec<(String, String, usize)> {
    let mut src = String::new();
    for (pos, k) in l.iter().enumerate() {
        src.push_str(&format!("DEFCAL {}:\n    PRAGMA m{pos}\n", sig(&defs[*k])));
    }
    let r = catch(|| {
        let mut out = vec![];
        let p = Program::from_str(&src).expect("c16 program");
        // reference: identical signature replaces in place (keeps position, takes the later body)
        let mut order: Vec<(usize, usize)> = vec![];
        for (pos, k) in l.iter().enumerate() {
            if let Some(e) = order.iter_mut().find(|(kk, _)| sig(&defs[*kk]) == sig(&defs[*k])) {
                e.1 = pos;
            } else {
                order.push((*k, pos));
            }
        }
        // the stored list reflects that
        let stored: Vec<String> = p.calibrations.iter_calibrations().map(|c| c.instructions[0].to_quil_or_debug()).collect();
        let want_stored: Vec<String> = order.iter().map(|(_, m)| format!("PRAGMA m{m}")).collect();
        if stored != want_stored {
            out.push(("replace-in-place".to_string(), format!("calibrations stored as {stored:?}, expected {want_stored:?}"), 0));
        }
        for (gi, (gt, name, dag, param, qs)) in gates.iter().enumerate() {
            let g = match Instruction::from_str(gt).unwrap() {
                Instruction::Gate(g) => g,
                _ => unreachable!(),
            };
            let mut best: Option<(usize, usize)> = None;
            for (k, marker) in &order {
                let d = &defs[*k];
                if qs.contains(&"<controlled>") {
                    continue; // a modified gate matches no unmodified calibration in this alphabet
                }
                if d.name != *name || d.dag != *dag || d.param.is_some() != param.is_some() || d.qs.len() != qs.len() {
                    continue;
                }
                let qok = d.qs.iter().zip(qs).all(|(dq, gq)| if is_fixed(dq) { dq == gq } else { true });
                let pok = match (d.param, param) {
                    (Some(dp), Some(gp)) => {
                        let (dl, gl): (Vec<&str>, Vec<&str>) = (dp.split(", ").collect(), gp.split(", ").collect());
                        dl.len() == gl.len() && dl.iter().zip(&gl).all(|(a, b)| a.starts_with('%') || a == b)
                    }
                    _ => true,
                };
                if qok && pok {
                    let fc = d.qs.iter().filter(|q| is_fixed(q)).count();
                    if best.map(|b| fc >= b.0).unwrap_or(true) {
                        best = Some((fc, *marker));
                    }
                }
            }
            let got = p.calibrations.get_match_for_gate(&g).map(|c| c.instructions[0].to_quil_or_debug());
            let want = best.map(|(_, m)| format!("PRAGMA m{m}"));
            if got != want {
                out.push(("gate-match".to_string(), format!("gate `{gt}`: matched {got:?}, rules pick {want:?}"), gi));
                continue;
            }
            // expand_calibrations on the one-instruction program agrees
            let mut p1 = p.clone();
            p1.add_instruction(Instruction::Gate(g.clone()));
            if let Ok(e) = p1.expand_calibrations() {
                let body: Vec<String> = e.body_instructions().map(|i| i.to_quil_or_debug()).collect();
                let want_body = vec![want.clone().unwrap_or_else(|| g.to_quil_or_debug())];
                if body != want_body {
                    out.push(("gate-expand-agrees".to_string(), format!("gate `{gt}`: expansion gives {body:?}, lookup gives {want_body:?}"), gi));
                }
            }
        }
        out
    });
    match r {
        Ok(v) => v,
        Err(p) => vec![("panic".into(), p, 0)],
    }
}

type MDef = (Option<&'static str>, &'static str, Option<&'static str>);
fn c16_mdefs() -> Vec<MDef> {
    let mut v = vec![];
    for nm in [None, Some("m")] {
        for q in ["0", "1", "q"] {
            for t in [None, Some("t")] {
                v.push((nm, q, t));
            }
        }
    }
    v
}
fn msig(d: &MDef) -> String {
    format!("MEASURE{} {}{}", d.0.map(|n| format!("!{n}")).unwrap_or_default(), d.1, d.2.map(|t| format!(" {t}")).unwrap_or_default())
}
type MQ = (String, Option<&'static str>, &'static str, bool);
fn c16_meas() -> Vec<MQ> {
    let mut v = vec![];
    for nm in [None, Some("m"), Some("z")] {
        for q in ["0", "1", "2"] {
            for t in [false, true] {
                v.push((format!("MEASURE{} {q}{}", nm.map(|n| format!("!{n}")).unwrap_or_default(), if t { " ro[1]" } else { "" }), nm, q, t));
            }
        }
    }
    v
}
fn c16_meas_check(mdefs: &[MDef], meas: &[MQ], l: &[usize]) -> Vec<(String, String, usize)> {
    let mut src = String::new();
    for (pos, k) in l.iter().enumerate() {
        src.push_str(&format!("DEFCAL {}:\n    PRAGMA m{pos}\n", msig(&mdefs[*k])));
    }
    let r = catch(|| {
        let mut out = vec![];
        let p = Program::from_str(&src).expect("c16 measure program");
        let mut order: Vec<(usize, usize)> = vec![];
        for (pos, k) in l.iter().enumerate() {
            if let Some(e) = order.iter_mut().find(|(kk, _)| kk == k) {
                e.1 = pos;
            } else {
                order.push((*k, pos));
            }
        }
        let stored: Vec<String> = p.calibrations.iter_measure_calibrations().map(|c| c.instructions[0].to_quil_or_debug()).collect();
        let want_stored: Vec<String> = order.iter().map(|(_, m)| format!("PRAGMA m{m}")).collect();
        if stored != want_stored {
            out.push(("replace-in-place".to_string(), format!("measure calibrations stored as {stored:?}, expected {want_stored:?}"), 0));
        }
        for (mi, (mt, nm, q2, t)) in meas.iter().enumerate() {
            let m = match Instruction::from_str(mt).unwrap() {
                Instruction::Measurement(m) => m,
                _ => unreachable!(),
            };
            let mut exact = None;
            let mut wild = None;
            for (k, marker) in &order {
                let d = &mdefs[*k];
                if d.0 != *nm || d.2.is_some() != *t {
                    continue;
                }
                if d.1 == *q2 {
                    exact = Some(*marker);
                } else if d.1 == "q" {
                    wild = Some(*marker);
                }
            }
            let want = exact.or(wild).map(|m| format!("PRAGMA m{m}"));
            let got = p.calibrations.get_match_for_measurement(&m).map(|c| c.instructions[0].to_quil_or_debug());
            if got != want {
                out.push(("measure-match".to_string(), format!("`{mt}`: matched {got:?}, rules pick {want:?}"), mi));
                continue;
            }
            let mut p1 = p.clone();
            p1.add_instruction(Instruction::Measurement(m.clone()));
            if let Ok(e) = p1.expand_calibrations() {
                let body: Vec<String> = e.body_instructions().map(|i| i.to_quil_or_debug()).collect();
                let want_body = vec![want.clone().unwrap_or_else(|| m.to_quil_or_debug())];
                if body != want_body {
                    out.push(("measure-expand-agrees".to_string(), format!("`{mt}`: expansion gives {body:?}, lookup gives {want_body:?}"), mi));
                }
            }
        }
        out
    });
    match r {
        Ok(v) => v,
        Err(p) => vec![("panic".into(), p, 0)],
    }
}

pub static C16: PropDef = PropDef {
    id: "C16",
    level: "exploration",
    engine: "sweep",
    rule: "every ordered list of <= 3 (thorough 4) gate calibrations from a 21-signature alphabet (X / DAGGER X on 0,1,q; RX with %t, 0.5, 1.5 on 0,q; CZ on five fixed/variable patterns; U with two parameters fixed / variable in either position; identical signatures allowed -> replace in place), each with a distinct body marker, queried with 30 gates over the same alphabets (incl. wrong arity, missing parameter, variable qubit, extra modifier); every ordered list of <= 3 (4) measure calibrations from 12 signatures (name, qubit 0/1/q, target yes/no) queried with 18 measurements; lookup result and one-instruction expansion compared with the documented precedence rules. non-trivial = (list, query) pair with a match (counted per list)",
    assumptions: &["reference rules transcribed from the property statement; parameter equality only between syntactically identical literals or a variable"],
    run: |ctx| {
        let defs = c16_defs();
        let gates = c16_gates();
        let ll = ctx.tier.pick(3, 4);
        ctx.bound("gate_signatures", json!(defs.iter().map(sig).collect::<Vec<_>>()));
        ctx.bound("max_list_length", json!(ll));
        for len in 0..=ll {
            sequences(defs.len(), len, |l| {
                if !ctx.take(|| json!({"kind": "gate", "list": l.iter().map(|k| sig(&defs[*k])).collect::<Vec<_>>()})) {
                    return;
                }
                ctx.evals += gates.len() as u64 - 1;
                if len >= 1 {
                    ctx.nontrivial(&("g", l));
                }
                ctx.outcome("gate-list");
                for (clause, detail, gi) in c16_gate_check(&defs, &gates, l) {
                    let fails = |s: &[usize]| c16_gate_check(&defs, &gates, s).iter().any(|(c, _, g)| *c == clause && *g == gi);
                    let small = shrink_list(l.to_vec(), &fails);
                    let lt: Vec<String> = small.iter().map(|k| sig(&defs[*k])).collect();
                    ctx.report(viol(&clause, format!("C16:{clause}:[{}] ? {}", lt.join("; "), gates[gi].0), json!({"kind": "gate", "list": lt}), detail));
                }
            });
        }
        let mdefs = c16_mdefs();
        let meas = c16_meas();
        ctx.bound("measure_signatures", json!(mdefs.iter().map(msig).collect::<Vec<_>>()));
        for len in 0..=ll {
            sequences(mdefs.len(), len, |l| {
                if !ctx.take(|| json!({"kind": "measure", "list": l.iter().map(|k| msig(&mdefs[*k])).collect::<Vec<_>>()})) {
                    return;
                }
                ctx.evals += meas.len() as u64 - 1;
                if len >= 1 {
                    ctx.nontrivial(&("m", l));
                }
                ctx.outcome("measure-list");
                for (clause, detail, mi) in c16_meas_check(&mdefs, &meas, l) {
                    let fails = |s: &[usize]| c16_meas_check(&mdefs, &meas, s).iter().any(|(c, _, g)| *c == clause && *g == mi);
                    let small = shrink_list(l.to_vec(), &fails);
                    let lt: Vec<String> = small.iter().map(|k| msig(&mdefs[*k])).collect();
                    ctx.report(viol(&clause, format!("C16:{clause}:[{}] ? {}", lt.join("; "), meas[mi].0), json!({"kind": "measure", "list": lt}), detail));
                }
            });
        }
    },
    replay: |c| {
        let list = strs(&c["list"]);
        if c["kind"].as_str() == Some("gate") {
            let defs = c16_defs();
            let l: Vec<usize> = list.iter().filter_map(|t| defs.iter().position(|d| &sig(d) == t)).collect();
            c16_gate_check(&defs, &c16_gates(), &l).into_iter().map(|(cl, d, _)| viol(&cl, format!("C16:{cl}:replay"), c.clone(), d)).collect()
        } else {
            let mdefs = c16_mdefs();
            let l: Vec<usize> = list.iter().filter_map(|t| mdefs.iter().position(|d| &msig(d) == t)).collect();
            c16_meas_check(&mdefs, &c16_meas(), &l).into_iter().map(|(cl, d, _)| viol(&cl, format!("C16:{cl}:replay"), c.clone(), d)).collect()
        }
    },
    caps: (50, 3000),
};

// ---------------------------------------------------------------------------- reference expander

fn subst(e: &Expression, m: &HashMap<String, Expression>) -> Expression {
    match e {
        Expression::Variable(v) => m.get(v).cloned().unwrap_or_else(|| e.clone()),
        Expression::Infix(i) => Expression::Infix(InfixExpression::new(subst(&i.left, m).into(), i.operator, subst(&i.right, m).into())),
        Expression::Prefix(p) => Expression::Prefix(PrefixExpression::new(p.operator, subst(&p.expression, m).into())),
        Expression::FunctionCall(f) => Expression::FunctionCall(FunctionCallExpression::new(f.function, subst(&f.expression, m).into())),
        o => o.clone(),
    }
}
fn subst_addr(e: &Expression, t: &(String, MemoryReference)) -> Expression {
    match e {
        Expression::Address(r) if r.name == t.0 => Expression::Address(t.1.clone()),
        Expression::Infix(i) => Expression::Infix(InfixExpression::new(subst_addr(&i.left, t).into(), i.operator, subst_addr(&i.right, t).into())),
        Expression::Prefix(p) => Expression::Prefix(PrefixExpression::new(p.operator, subst_addr(&p.expression, t).into())),
        Expression::FunctionCall(f) => Expression::FunctionCall(FunctionCallExpression::new(f.function, subst_addr(&f.expression, t).into())),
        o => o.clone(),
    }
}
fn map_q(q: &mut Qubit, m: &HashMap<String, Qubit>) {
    if let Qubit::Variable(n) = q {
        if let Some(r) = m.get(n) {
            *q = r.clone();
        }
    }
}
/// every qubit-bearing position of an instruction (independent of Instruction::get_qubits_mut)
fn all_qubits_mut(i: &mut Instruction) -> Vec<&mut Qubit> {
    match i {
        Instruction::Gate(g) => g.qubits.iter_mut().collect(),
        Instruction::Measurement(m) => vec![&mut m.qubit],
        Instruction::Reset(r) => r.qubit.iter_mut().collect(),
        Instruction::Delay(d) => d.qubits.iter_mut().collect(),
        Instruction::Fence(f) => f.qubits.iter_mut().collect(),
        Instruction::Pulse(p) => p.frame.qubits.iter_mut().collect(),
        Instruction::Capture(p) => p.frame.qubits.iter_mut().collect(),
        Instruction::RawCapture(p) => p.frame.qubits.iter_mut().collect(),
        Instruction::SetFrequency(p) => p.frame.qubits.iter_mut().collect(),
        Instruction::SetPhase(p) => p.frame.qubits.iter_mut().collect(),
        Instruction::SetScale(p) => p.frame.qubits.iter_mut().collect(),
        Instruction::ShiftFrequency(p) => p.frame.qubits.iter_mut().collect(),
        Instruction::ShiftPhase(p) => p.frame.qubits.iter_mut().collect(),
        Instruction::SwapPhases(s) => s.frame_1.qubits.iter_mut().chain(s.frame_2.qubits.iter_mut()).collect(),
        _ => vec![],
    }
}
/// every memory-reference operand of an instruction (outside expressions)
fn all_refs_mut(i: &mut Instruction) -> Vec<&mut MemoryReference> {
    match i {
        Instruction::Move(m) => {
            let mut v = vec![&mut m.destination];
            if let ArithmeticOperand::MemoryReference(r) = &mut m.source {
                v.push(r);
            }
            v
        }
        Instruction::Arithmetic(m) => {
            let mut v = vec![&mut m.destination];
            if let ArithmeticOperand::MemoryReference(r) = &mut m.source {
                v.push(r);
            }
            v
        }
        Instruction::BinaryLogic(m) => {
            let mut v = vec![&mut m.destination];
            if let BinaryOperand::MemoryReference(r) = &mut m.source {
                v.push(r);
            }
            v
        }
        Instruction::Comparison(m) => {
            let mut v = vec![&mut m.destination, &mut m.lhs];
            if let ComparisonOperand::MemoryReference(r) = &mut m.rhs {
                v.push(r);
            }
            v
        }
        Instruction::Exchange(e) => vec![&mut e.left, &mut e.right],
        Instruction::Convert(e) => vec![&mut e.destination, &mut e.source],
        Instruction::Capture(c) => vec![&mut c.memory_reference],
        Instruction::RawCapture(c) => vec![&mut c.memory_reference],
        Instruction::Measurement(m) => m.target.iter_mut().collect(),
        Instruction::UnaryLogic(u) => vec![&mut u.operand],
        Instruction::JumpWhen(j) => vec![&mut j.condition],
        Instruction::JumpUnless(j) => vec![&mut j.condition],
        _ => vec![],
    }
}
fn lands_in_body(i: &Instruction) -> bool {
    !matches!(
        i,
        Instruction::Declaration(_) | Instruction::FrameDefinition(_) | Instruction::WaveformDefinition(_) | Instruction::CalibrationDefinition(_) | Instruction::MeasureCalibrationDefinition(_) | Instruction::GateDefinition(_) | Instruction::CircuitDefinition(_)
    )
}
fn kind(i: &Instruction) -> String {
    format!("{i:?}").split(|c: char| !c.is_alphanumeric()).next().unwrap_or("").to_string()
}

#[derive(Debug, Clone)]
enum Node {
    Leaf(Instruction),
    /// (calibration used, is measure cal, children, the un-substituted body instruction kinds)
    Exp(CalibrationSource, Vec<Node>),
}
fn flat(n: &Node, out: &mut Vec<Instruction>) {
    match n {
        Node::Leaf(i) => out.push(i.clone()),
        Node::Exp(_, c) => {
            for x in c {
                flat(x, out)
            }
        }
    }
}
fn flat_body(n: &Node, out: &mut Vec<Instruction>) {
    match n {
        Node::Leaf(i) => {
            if lands_in_body(i) {
                out.push(i.clone())
            }
        }
        Node::Exp(_, c) => {
            for x in c {
                flat_body(x, out)
            }
        }
    }
}
/// origin of each flattened body instruction: (cal kind of the innermost expansion, kind of instruction)
fn flat_origin(n: &Node, cur: &str, out: &mut Vec<String>) {
    match n {
        Node::Leaf(i) => {
            if lands_in_body(i) {
                out.push(format!("{cur}:{}", kind(i)))
            }
        }
        Node::Exp(src, c) => {
            let k = match src {
                CalibrationSource::Calibration(_) => "gate-cal",
                CalibrationSource::MeasureCalibration(_) => "measure-cal",
            };
            for x in c {
                flat_origin(x, k, out)
            }
        }
    }
}

#[derive(Debug, PartialEq)]
enum RErr {
    Recursive,
    Fuel,
}
fn rexp(p: &Program, i: &Instruction, path: &mut Vec<Instruction>, fuel: &mut i64) -> Result<Node, RErr> {
    if path.contains(i) {
        return Err(RErr::Recursive);
    }
    *fuel -= 1;
    if *fuel < 0 {
        return Err(RErr::Fuel);
    }
    let body: Option<(Vec<Instruction>, CalibrationSource)> = match i {
        Instruction::Gate(g) => p.calibrations.get_match_for_gate(g).map(|cal| {
            let qm: HashMap<String, Qubit> = cal.identifier.qubits.iter().zip(&g.qubits).filter_map(|(c, q)| if let Qubit::Variable(n) = c { Some((n.clone(), q.clone())) } else { None }).collect();
            let pm: HashMap<String, Expression> = cal.identifier.parameters.iter().zip(&g.parameters).filter_map(|(c, e)| if let Expression::Variable(n) = c { Some((n.clone(), e.clone())) } else { None }).collect();
            let mut b = cal.instructions.clone();
            for ins in b.iter_mut() {
                for q in all_qubits_mut(ins) {
                    map_q(q, &qm);
                }
                ins.apply_to_expressions(|e| *e = subst(e, &pm));
            }
            (b, CalibrationSource::Calibration(cal.identifier.clone()))
        }),
        Instruction::Measurement(m) => p.calibrations.get_match_for_measurement(m).map(|cal| {
            let mut qm = HashMap::new();
            if let Qubit::Variable(n) = &cal.identifier.qubit {
                qm.insert(n.clone(), m.qubit.clone());
            }
            let t: Option<(String, MemoryReference)> = match (&cal.identifier.target, &m.target) {
                (Some(n), Some(r)) => Some((n.clone(), r.clone())),
                _ => None,
            };
            let mut b = cal.instructions.clone();
            for ins in b.iter_mut() {
                for q in all_qubits_mut(ins) {
                    map_q(q, &qm);
                }
                if let Some(t) = &t {
                    for r in all_refs_mut(ins) {
                        // a use of the target *name*: unindexed / index 0 reference with that name
                        if r.name == t.0 && r.index == 0 {
                            *r = t.1.clone();
                        }
                    }
                    ins.apply_to_expressions(|e| *e = subst_addr(e, t));
                    if let Instruction::Pragma(pr) = ins {
                        if pr.name == "LOAD-MEMORY" && pr.data.as_deref() == Some(t.0.as_str()) {
                            pr.data = Some(t.1.to_quil_or_debug());
                        }
                    }
                }
            }
            (b, CalibrationSource::MeasureCalibration(cal.identifier.clone()))
        }),
        _ => None,
    };
    match body {
        None => Ok(Node::Leaf(i.clone())),
        Some((b, src)) => {
            path.insert(0, i.clone());
            let mut kids = vec![];
            for x in &b {
                match rexp(p, x, path, fuel) {
                    Ok(n) => kids.push(n),
                    Err(e) => {
                        path.remove(0);
                        return Err(e);
                    }
                }
            }
            path.remove(0);
            Ok(Node::Exp(src, kids))
        }
    }
}

type SMap = SourceMap<InstructionIndex, ExpansionResult<CalibrationExpansion>>;

fn check_map(sm: &SMap, nodes: &[Node], out: &[Instruction], nested: bool, add: &mut dyn FnMut(String, String)) {
    let es = sm.entries();
    let mut ei = 0usize;
    let mut pos = 0usize;
    let lvl = if nested { "nested" } else { "top" };
    let mut last_src: Option<usize> = None;
    for e in es {
        let s = e.source_location().0;
        if let Some(l) = last_src {
            if s <= l {
                add(format!("{lvl}:entries-not-increasing"), format!("source indices not strictly increasing ({l} then {s})"));
            }
        }
        last_src = Some(s);
    }
    for (k, n) in nodes.iter().enumerate() {
        let mut f = vec![];
        flat_body(n, &mut f);
        if f.is_empty() {
            if let Some(en) = es.get(ei) {
                if en.source_location().0 == k {
                    // an entry for a source that produced no output must at least be an empty range
                    match en.target_location() {
                        ExpansionResult::Unmodified(i) => add(format!("{lvl}:unmodified-entry-for-source-without-output"), format!("source {k} produced no body instruction but has an Unmodified({}) entry", i.0)),
                        ExpansionResult::Rewritten(r) => {
                            if r.range().start.0 != r.range().end.0 {
                                add(format!("{lvl}:range-for-source-without-output"), format!("source {k} produced no body instruction but has range {:?}", r.range()));
                            }
                        }
                    }
                    ei += 1;
                }
            }
            continue;
        }
        let en = match es.get(ei) {
            Some(e) => e,
            None => {
                add(format!("{lvl}:missing-entry"), format!("no entry for source {k}"));
                return;
            }
        };
        ei += 1;
        if en.source_location().0 != k {
            add(format!("{lvl}:source-index"), format!("entry has source index {}, expected {k}", en.source_location().0));
        }
        match (en.target_location(), n) {
            (ExpansionResult::Unmodified(i), Node::Leaf(ins)) => {
                if i.0 != pos || out.get(i.0) != Some(ins) {
                    add(format!("{lvl}:unmodified-index"), format!("Unmodified({}) for source {k}, but that instruction is at position {pos} of the {}", i.0, if nested { "parent range" } else { "output body" }));
                }
            }
            (ExpansionResult::Rewritten(r), Node::Exp(src, kids)) => {
                let rg = r.range();
                if rg.start.0 != pos || rg.end.0 != pos + f.len() {
                    add(format!("{lvl}:range"), format!("range {}..{} for source {k}, its expansion occupies {}..{}", rg.start.0, rg.end.0, pos, pos + f.len()));
                }
                if r.calibration_used() != src {
                    add(format!("{lvl}:calibration-used"), format!("source {k}: records a different calibration than the lookup rules pick"));
                }
                check_map(r.expansions(), kids, &f, true, add);
            }
            _ => add(format!("{lvl}:kind-mismatch"), format!("source {k}: entry kind (unmodified / rewritten) does not match whether it has a calibration")),
        }
        pos += f.len();
    }
    if ei != es.len() {
        add(format!("{lvl}:extra-entries"), format!("{} entries beyond the sources that produced output", es.len() - ei));
    }
    if pos != out.len() {
        add(format!("{lvl}:coverage"), format!("entries cover {pos} instructions, the {} has {}", if nested { "parent range" } else { "output body" }, out.len()));
    }
}

/// list_sources / list_targets are mutually inverse at top level
fn check_inverse(sm: &SMap, n_src: usize, n_out: usize, add: &mut dyn FnMut(String, String)) {
    for s in 0..n_src {
        let ts = sm.list_targets(&InstructionIndex(s));
        for t in ts {
            let idxs: Vec<usize> = match t {
                ExpansionResult::Unmodified(i) => vec![i.0],
                ExpansionResult::Rewritten(r) => (r.range().start.0..r.range().end.0).collect(),
            };
            for i in idxs {
                let back: Vec<usize> = sm.list_sources(&InstructionIndex(i)).into_iter().map(|x| x.0).collect();
                if !back.contains(&s) {
                    add("top:inverse".to_string(), format!("target {i} is listed for source {s}, but sources of {i} are {back:?}"));
                }
            }
        }
    }
    for t in 0..n_out {
        let ss: Vec<usize> = sm.list_sources(&InstructionIndex(t)).into_iter().map(|x| x.0).collect();
        if ss.len() != 1 {
            add("top:inverse".to_string(), format!("output instruction {t} has sources {ss:?} (exactly one expected)"));
        }
    }
}

#[derive(Clone, Copy, PartialEq)]
enum Which {
    C17,
    C18,
    C19,
}

/// evaluate one program text. Returns (class, violations)
fn cal_check(which: Which, src: &str) -> (String, Vec<(String, String, String)>) {
    // (clause, fingerprint-tail, detail)
    let mut out: Vec<(String, String, String)> = vec![];
    let Ok(p) = Program::from_str(src) else { return ("unparsable".into(), out) };
    // reference classification (fuel = unbounded growth).  A ladder is finite by construction and is
    // not fed to the (recursive) reference expander.
    let ladder = src.starts_with("DEFCAL G0 0:");
    let mut nodes = vec![];
    let mut rerr = None;
    if ladder {
        let d = src.matches("DEFCAL").count();
        let leaf = Instruction::from_str(&format!("G{d} 0")).expect("ladder leaf");
        nodes.push(Node::Leaf(leaf));
    } else {
        let p3 = p.clone();
        let r = catch(move || {
            let mut nodes = vec![];
            let mut rerr = None;
            for i in p3.body_instructions() {
                let mut fuel = 400;
                match rexp(&p3, i, &mut vec![], &mut fuel) {
                    Ok(nd) => nodes.push(nd),
                    Err(e) => {
                        rerr = Some(e);
                        break;
                    }
                }
            }
            (nodes, rerr)
        });
        match r {
            Ok((n, e)) => {
                nodes = n;
                rerr = e;
            }
            // the library panicked while the reference asked it for a match on an ever-growing
            // parameter: classify as unbounded growth (the real expansion is judged on its own below)
            Err(_) => rerr = Some(RErr::Fuel),
        }
    }
    let class = match &rerr {
        None => "finite",
        Some(RErr::Recursive) => "recursive",
        Some(RErr::Fuel) => "unbounded-growth",
    };
    // run the real expansion on a thread with Rust's default 2 MiB stack (what a library user's
    // worker thread or test gets).  A stack overflow or hang kills / stalls this worker process and
    // is attributed to this case by the parent.
    let p2 = p.clone();
    let handle = std::thread::Builder::new().stack_size(2 << 20).spawn(move || {
        let r = catch(|| (p2.expand_calibrations_with_source_map(), p2.expand_calibrations()));
        r
    });
    let joined = handle.expect("spawn").join();
    let (r, r2) = match joined {
        Ok(Ok(x)) => x,
        Ok(Err(pan)) => {
            out.push(("panic".into(), format!("panic:{}", crash_class(src)), format!("expansion panicked: {pan}")));
            return (class.into(), out);
        }
        Err(_) => {
            out.push(("panic".into(), "panic".into(), "expansion thread panicked".into()));
            return (class.into(), out);
        }
    };
    match (&rerr, &r) {
        (None, Ok((qp, sm))) => {
            let mut want = vec![];
            let mut decls = vec![];
            let mut origin = vec![];
            for nd in &nodes {
                let mut f = vec![];
                flat(nd, &mut f);
                for i in f {
                    if lands_in_body(&i) {
                        want.push(i);
                    } else {
                        decls.push(i);
                    }
                }
                flat_origin(nd, "body", &mut origin);
            }
            let got: Vec<Instruction> = qp.body_instructions().cloned().collect();
            if ladder {
                if got != want {
                    out.push(("body".into(), "body:ladder".into(), format!("a finite chain expands to {} instructions, first `{}`", got.len(), got.first().map(q).unwrap_or_default())));
                }
            } else if which == Which::C17 {
                if got != want {
                    let d = got.iter().zip(&want).position(|(a, b)| a != b);
                    match d {
                        Some(k) => out.push(("body".into(), format!("body:{}", origin.get(k).cloned().unwrap_or_default()), format!("expanded instruction {k} is `{}`, faithful substitution gives `{}`", q(&got[k]), q(&want[k])))),
                        None => out.push(("body".into(), "body:length".into(), format!("expanded body has {} instructions, expected {}", got.len(), want.len()))),
                    }
                }
                for d in &decls {
                    if let Instruction::Declaration(dd) = d {
                        if !qp.memory_regions.contains_key(&dd.name) {
                            out.push(("declaration-not-hoisted".into(), "declaration-not-hoisted".into(), format!("DECLARE {} from a calibration body is not among the program's declarations", dd.name)));
                        }
                    }
                }
                if got.iter().any(|i| matches!(i, Instruction::Declaration(_))) {
                    out.push(("declaration-in-body".into(), "declaration-in-body".into(), "a DECLARE remains in the expanded body".into()));
                }
                match &r2 {
                    Ok(q2) => {
                        if q2 != qp {
                            out.push(("entry-points-differ".into(), "entry-points-differ".into(), "expand_calibrations and expand_calibrations_with_source_map give different programs".into()));
                        }
                    }
                    Err(_) => out.push(("entry-points-differ".into(), "entry-points-differ".into(), "expand_calibrations fails where the source-map variant succeeds".into())),
                }
                // fixpoint: no body instruction has a match; expanding again changes nothing
                for i in &got {
                    let m = match i {
                        Instruction::Gate(g) => qp.calibrations.get_match_for_gate(g).is_some(),
                        Instruction::Measurement(m) => qp.calibrations.get_match_for_measurement(m).is_some(),
                        _ => false,
                    };
                    if m {
                        out.push(("not-a-fixpoint".into(), "not-a-fixpoint".into(), format!("`{}` in the expanded body still has a matching calibration", q(i))));
                        break;
                    }
                }
                if let Ok(qq) = qp.expand_calibrations() {
                    if qq.body_instructions().cloned().collect::<Vec<_>>() != got {
                        out.push(("not-a-fixpoint".into(), "not-a-fixpoint".into(), "expanding the result again changes the body".into()));
                    }
                }
                // per-instruction Calibrations::expand agrees (only meaningful when the body itself is right)
                for (k, i) in p.body_instructions().enumerate().filter(|_| got == want) {
                    let mut f = vec![];
                    flat(&nodes[k], &mut f);
                    match p.calibrations.expand(i, &[]) {
                        Ok(Some(v)) => {
                            if v != f {
                                out.push(("per-instruction-expand".into(), "per-instruction-expand".into(), format!("Calibrations::expand of `{}` gives {:?}", q(i), v.iter().map(q).collect::<Vec<_>>())));
                            }
                        }
                        Ok(None) => {
                            if !matches!(nodes[k], Node::Leaf(_)) {
                                out.push(("per-instruction-expand".into(), "per-instruction-expand".into(), format!("Calibrations::expand of `{}` gives None although a calibration matches", q(i))));
                            }
                        }
                        Err(_) => out.push(("per-instruction-expand".into(), "per-instruction-expand".into(), format!("Calibrations::expand of `{}` fails", q(i)))),
                    }
                }
            }
            if which == Which::C19 && got == want && !ladder {
                let mut add = |c: String, d: String| out.push((c.clone(), c, d));
                check_map(sm, &nodes, &got, false, &mut add);
                check_inverse(sm, nodes.len(), got.len(), &mut add);
            }
            if which == Which::C18 {
                // finite: must be Ok (it is) — nothing else to say here
            }
        }
        (Some(_), Err(e)) => {
            if which == Which::C18 && !matches!(e, ProgramError::RecursiveCalibration(_)) {
                out.push(("wrong-error".into(), "wrong-error".into(), format!("recursive program fails with {e} instead of the recursive-calibration error")));
            }
        }
        (Some(e), Ok(_)) => {
            if which == Which::C18 {
                out.push(("missed-recursion".into(), format!("missed-recursion:{e:?}"), "expansion succeeds although an instruction is expanded again while being expanded".into()));
            }
        }
        (None, Err(e)) => {
            if which == Which::C18 {
                out.push(("spurious-error".into(), "spurious-error".into(), format!("finite expansion fails with {e}")));
            }
        }
    }
    (class.into(), out)
}

// ------------------------------------------------------------------------------- program spaces

const GATE_BODIES: &[&str] = &[
    "Y q",
    "RX(%t) q",
    "MEASURE q ro",
    "RESET q",
    "DELAY q \"f\" %t",
    "FENCE q",
    "PULSE q \"f\" flat(duration: %t, iq: 1)",
    "CAPTURE q \"f\" flat(duration: 1, iq: 1) ro",
    "RAW-CAPTURE q \"f\" %t ro",
    "SET-PHASE q \"f\" %t",
    "SHIFT-FREQUENCY q 1 \"f\" %t*2",
    "SWAP-PHASES q \"f\" 1 \"f\"",
    "DECLARE tmp BIT",
    "Z 0",
    "NOP",
    "X 1",
];
const MEAS_BODIES: &[&str] = &[
    "CAPTURE q \"f\" flat(duration: 1, iq: 1) dest",
    "CAPTURE q \"f\" flat(duration: 1, iq: 1) other[2]",
    "RAW-CAPTURE q \"f\" 1 dest",
    "MOVE dest 1",
    "NOT dest",
    "SET-PHASE q \"f\" dest",
    "PRAGMA LOAD-MEMORY q \"dest\"",
    "PRAGMA LOAD-MEMORY q \"other\"",
    "DECLARE tmp BIT",
    "FENCE q",
    "Y q",
];

fn programs(which: Which, tier: Tier) -> Vec<String> {
    let mut progs: Vec<String> = vec![];
    let gb: Vec<&str> = GATE_BODIES.to_vec();
    for a in &gb {
        for b in gb.iter().chain(std::iter::once(&"")) {
            let body = if b.is_empty() { format!("    {a}\n") } else { format!("    {a}\n    {b}\n") };
            for inv in ["X 3", "X(0.5) 3", "X 0", "X 3\nX 4", "Y 3\nX 3", "X 3\nY 3", "X 3\nH 0\nY 3\nX 3"] {
                if inv.contains('\n') && tier == Tier::Quick && !(a.starts_with("DECLARE") || b.starts_with("DECLARE") || a.starts_with("Y") || b.starts_with("Y")) {
                    continue;
                }
                let head = if inv.contains('(') { "DEFCAL X(%t) q" } else { "DEFCAL X q" };
                progs.push(format!("{head}:\n{body}DEFCAL Y q:\n    DECLARE t2 BIT\n    Z q\n    Z q\nH 2\n{inv}\nH 4\n"));
            }
        }
    }
    if tier == Tier::Thorough {
        // bodies of three instructions
        for a in &gb {
            for b in &gb {
                for c in &gb {
                    for inv in ["X 3", "X(0.5) 3"] {
                        let head = if inv.contains('(') { "DEFCAL X(%t) q" } else { "DEFCAL X q" };
                        progs.push(format!("{head}:\n    {a}\n    {b}\n    {c}\nDEFCAL Y q:\n    DECLARE t2 BIT\n    Z q\n    Z q\nH 2\n{inv}\nH 4\n"));
                    }
                }
            }
        }
        for a in MEAS_BODIES {
            for b in MEAS_BODIES {
                for c in MEAS_BODIES {
                    progs.push(format!("DEFCAL MEASURE q dest:\n    {a}\n    {b}\n    {c}\nDEFCAL Y q:\n    Z q\nH 2\nMEASURE 3 ro[1]\nH 4\n"));
                }
            }
        }
    }
    for a in MEAS_BODIES {
        for b in MEAS_BODIES.iter().chain(std::iter::once(&"")) {
            let body = if b.is_empty() { format!("    {a}\n") } else { format!("    {a}\n    {b}\n") };
            for (head, inv) in [("DEFCAL MEASURE q dest", "MEASURE 3 ro[1]"), ("DEFCAL MEASURE 3 dest", "MEASURE 3 ro[1]"), ("DEFCAL MEASURE q", "MEASURE 3"), ("DEFCAL MEASURE q dest", "MEASURE 3 ro[1]\nMEASURE 4 ro")] {
                progs.push(format!("{head}:\n{body}DEFCAL Y q:\n    Z q\nH 2\n{inv}\nH 4\n"));
            }
        }
    }
    // two-parameter calibrations: fixed and variable parameters in every order, parameters used in
    // every expression-bearing position, passed on to a nested two-parameter calibration
    let pbodies = ["RX(%s) q", "RX(%t) q", "RX(%s-%t) q", "DELAY q \"f\" %t", "PULSE q \"f\" flat(duration: %s, iq: %t)", "RAW-CAPTURE q \"f\" %t ro", "SHIFT-PHASE q \"f\" %s*2", "INNER(1, %t, %s) q", "INNER(%t, 3, %s) q"];
    for (head, invs) in [
        ("DEFCAL U(%s, %t) q", vec!["U(0.5, 1.5) 3", "U(2, 0.5) 3"]),
        ("DEFCAL U(2, %t) q", vec!["U(2, 0.5) 3", "U(2, 2) 3"]),
        ("DEFCAL U(%s, 2) q", vec!["U(0.5, 2) 3", "U(2, 2) 3"]),
        ("DEFCAL U(2, %t) 3", vec!["U(2, 0.5) 3"]),
    ] {
        for a in pbodies {
            if (a.contains("%s") && !head.contains("%s")) || (a.contains("%t") && !head.contains("%t")) {
                continue;
            }
            for b in pbodies.iter().chain(std::iter::once(&"")) {
                if (b.contains("%s") && !head.contains("%s")) || (b.contains("%t") && !head.contains("%t")) {
                    continue;
                }
                if tier == Tier::Quick && !b.is_empty() && !(a.starts_with("INNER") || b.starts_with("INNER")) {
                    continue;
                }
                let body = if b.is_empty() { format!("    {a}\n") } else { format!("    {a}\n    {b}\n") };
                for inv in &invs {
                    progs.push(format!("{head}:\n{body}DEFCAL INNER(1, %x, %y) q:\n    SHIFT-PHASE q \"f\" %x\n    SHIFT-FREQUENCY q \"f\" %y\nDEFCAL INNER(%x, 3, %y) q:\n    RZ(%x/%y) q\nH 2\n{inv}\nH 4\n"));
                }
            }
        }
    }
    // declarations at the start / middle / end of bodies, nested; bodies that expand to nothing
    for shape in [
        "DEFCAL X 0:\n    DECLARE foo BIT\n    Y 0\n    DECLARE bar BIT\nDEFCAL Y 0:\n    Z 0\nX 0\n",
        "DEFCAL X 0:\n    Y 0\n    DECLARE foo BIT\n    Y 0\nDEFCAL Y 0:\n    DECLARE baz BIT\n    Z 0\n    Z 1\nX 0\nX 0\n",
        "DEFCAL X 0:\n    DECLARE foo BIT\nX 0\nH 1\nX 0\n",
        // an expansion that leaves nothing in the body, followed by unmodified and rewritten instructions
        "DEFCAL X 0:\n    DECLARE foo BIT\nDEFCAL Y 0:\n    Z 0\n    Z 1\nX 0\nH 1\nY 0\nX 0\nY 0\nH 2\n",
        "DEFCAL X 0:\n    DECLARE foo BIT\nDEFCAL Y 0:\n    Z 0\nX 0\nY 0\n",
        "DEFCAL X 0:\n    DECLARE foo BIT\n    Y 0\nDEFCAL Y 0:\n    DECLARE bar BIT\nH 1\nX 0\nH 2\n",
        "DEFCAL X 0:\n    Y 0\n    Y 0\nDEFCAL Y 0:\n    DECLARE a1 BIT\n    Z 0\n    DECLARE a2 BIT\n    Z 1\n    DECLARE a3 BIT\nH 1\nX 0\nY 0\n",
        "DEFCAL X q:\n    Y q\n    Z q\nDEFCAL Y q:\n    Z q\n    DECLARE w BIT\nDEFCAL Z 3:\n    NOP\n    NOP\nX 3\nX 4\nZ 3\n",
        "DEFCAL MEASURE q dest:\n    DECLARE s REAL\n    Y q\n    CAPTURE q \"f\" w dest\nDEFCAL Y q:\n    DECLARE u BIT\n    NOP\nMEASURE 1 ro\nY 2\n",
    ] {
        progs.push(shape.to_string());
    }
    if which == Which::C18 {
        // self- and mutually-recursive, parameter-growing, and the depth ladder
        for s in [
            "DEFCAL X 0:\n    X 0\nX 0\n",
            "DEFCAL X 0:\n    Y 0\nDEFCAL Y 0:\n    X 0\nX 0\n",
            "DEFCAL X q:\n    X 1\nX 0\n",
            "DEFCAL X q:\n    X 1\nX 1\n",
            "DEFCAL X q:\n    Y q\nDEFCAL Y q:\n    Z q\nDEFCAL Z q:\n    X q\nH 0\nX 2\n",
            "DEFCAL MEASURE q:\n    MEASURE q\nMEASURE 0\n",
            "DEFCAL MEASURE q dest:\n    X q\n    MEASURE q dest\nMEASURE 0 ro\n",
            "DEFCAL X 0:\n    H 0\n    X 0\nX 0\n",
            "DEFCAL RX(%t) 0:\n    RX(%t) 0\nRX(1) 0\n",
        ] {
            progs.push(s.to_string());
        }
        for s in [
            "DEFCAL RX(%t) 0:\n    RX(%t+1) 0\nRX(0) 0\n",
            "DEFCAL RX(%t) q:\n    RX(2*%t) q\nRX(1) 3\n",
            "DEFCAL RX(%t) q:\n    RY(%t) q\nDEFCAL RY(%t) q:\n    RX(%t+1) q\nRX(1) 3\n",
            "DEFCAL RX(%t) 0:\n    RX(%t*%t) 0\nRX(2) 0\n",
        ] {
            progs.push(s.to_string());
        }
        // exhaustive small recursion space: one calibration for X and at most one for Y (thorough: and Z),
        // each with a fixed or variable head qubit and a body of 1-2 gates over {X, Y, (Z,) H} on the formal /
        // qubit 0 / qubit 1, x three invocations.  Which of these recurse is decided by the reference expander.
        let names: &[&str] = if tier == Tier::Quick { &["X", "Y"] } else { &["X", "Y", "Z"] };
        let defs_of = |name: &str, two: bool| -> Vec<String> {
            let mut out = vec![];
            for (head, qs) in [("0", vec!["0", "1"]), ("q", vec!["q", "0", "1"])] {
                let mut items: Vec<String> = vec![];
                for n in names {
                    for q in &qs {
                        items.push(format!("{n} {q}"));
                    }
                }
                items.push(format!("H {}", qs[0]));
                for a in &items {
                    out.push(format!("DEFCAL {name} {head}:\n    {a}\n"));
                    if two {
                        for b in &items {
                            out.push(format!("DEFCAL {name} {head}:\n    {a}\n    {b}\n"));
                        }
                    }
                }
            }
            out
        };
        let dx = defs_of("X", true);
        let mut dy = defs_of("Y", tier == Tier::Thorough);
        dy.push(String::new());
        let mut dz = if tier == Tier::Quick { vec![] } else { defs_of("Z", false) };
        dz.push(String::new());
        for x in &dx {
            for y in &dy {
                for z in &dz {
                    for inv in ["X 0", "X 1", "H 0\nY 0"] {
                        progs.push(format!("{x}{y}{z}{inv}\n"));
                    }
                }
            }
        }
        let ladders: &[usize] = if tier == Tier::Quick { &[10, 100, 1000, 3000] } else { &[10, 100, 200, 400, 1000, 3000, 10000] };
        for d in ladders {
            let mut s = String::new();
            for i in 0..*d {
                s.push_str(&format!("DEFCAL G{i} 0:\n    G{} 0\n", i + 1));
            }
            s.push_str("G0 0\n");
            progs.push(s);
        }
    }
    progs
}

/// class label used in fingerprints of crashes (engine appends case["class"])
fn crash_class(src: &str) -> String {
    if src.starts_with("DEFCAL G0 0:") {
        "finite-calibration-chain".into()
    } else if src.contains("%t+1") || src.contains("2*%t") || src.contains("%t*%t") {
        "growing-parameter-recursion".into()
    } else {
        "other".into()
    }
}

fn cal_run(ctx: &mut Ctx, id: &'static str, which: Which) {
    let progs = programs(which, ctx.tier);
    ctx.bound("programs", json!(progs.len()));
    for src in &progs {
        let short = if src.len() > 600 { format!("{}… ({} chars)", &src[..200], src.len()) } else { src.clone() };
        if !ctx.take(|| json!({"program": short, "class": crash_class(src), "ladder": if src.starts_with("DEFCAL G0 0:") { json!(src.matches("DEFCAL").count()) } else { Value::Null }})) {
            continue;
        }
        let (class, vs) = cal_check(which, src);
        ctx.outcome(&class);
        if class != "unparsable" {
            let has_cal = src.contains("DEFCAL");
            if has_cal {
                ctx.nontrivial(src);
            }
        }
        let mut seen = BTreeSet::new();
        for (clause, tail, detail) in vs {
            if !seen.insert(tail.clone()) {
                continue;
            }
            let case = if src.len() > 4000 { json!({"ladder": src.matches("DEFCAL").count()}) } else { json!({"program": src}) };
            ctx.report(viol(&clause, format!("{id}:{tail}"), case, format!("{detail}; program: {}", short.replace('\n', "; "))));
        }
    }
}

fn cal_replay(id: &str, which: Which, c: &Value) -> Vec<Viol> {
    let src = if let Some(d) = c["ladder"].as_u64() {
        let mut s = String::new();
        for i in 0..d {
            s.push_str(&format!("DEFCAL G{i} 0:\n    G{} 0\n", i + 1));
        }
        s.push_str("G0 0\n");
        s
    } else {
        c["program"].as_str().unwrap_or("").to_string()
    };
    let mut seen = BTreeSet::new();
    cal_check(which, &src).1.into_iter().filter(|(_, t, _)| seen.insert(t.clone())).map(|(cl, t, d)| viol(&cl, format!("{id}:{t}"), c.clone(), d)).collect()
}

const ASSUME: &[&str] = &[
    "reference expander mc/src/props/cal.rs rexp(): documented lookup (the library's own get_match_*, itself checked by C16) + full qubit / parameter / target-name substitution with an independent list of qubit- and reference-bearing positions",
    "bounded: calibration bodies of <= 2 instructions from the menus, 1-2 invocations, plus hand-written nested shapes",
];

pub static C17: PropDef = PropDef {
    id: "C17",
    level: "exploration",
    engine: "sweep",
    rule: "programs = one gate calibration whose body is every ordered choice of 1-2 instructions from a 16-instruction menu that puts the formal qubit / parameter into every position that can hold one (gate, MEASURE, RESET, DELAY, FENCE, PULSE, CAPTURE, RAW-CAPTURE, SET-PHASE, SHIFT-FREQUENCY, SWAP-PHASES, DECLARE, nested gates) + a nested calibration with a DECLARE, x 3-7 invocation patterns (incl. an expansion that leaves nothing in the body before a later rewritten instruction); two-parameter calibrations with fixed and variable parameters in every order (4 heads x 9 bodies using the parameters in gate / DELAY / waveform / RAW-CAPTURE / frame-update positions and passing them on to nested two-parameter calibrations); one measure calibration with 1-2 instructions from an 11-instruction menu using the formal target in captures, classical operands, expressions and LOAD-MEMORY, x 4 head/invocation patterns; 7 nested shapes. Oracle: body and hoisted declarations = reference expansion, fixpoint, both entry points and per-instruction expand agree. non-trivial = program with a calibration (distinct by text)",
    assumptions: ASSUME,
    run: |ctx| cal_run(ctx, "C17", Which::C17),
    replay: |c| cal_replay("C17", Which::C17, c),
    caps: (50, 3000),
};
pub static C18: PropDef = PropDef {
    id: "C18",
    level: "exploration",
    engine: "child",
    rule: "the C17 program space plus self- / mutually-recursive calibrations (9), parameter-growing calibrations (4), an exhaustive recursion space (one calibration for X and at most one for Y, thorough also Z, each with a fixed or variable head qubit and every body of 1-2 gates (quick: Y bodies of 1) over those names and H on the formal / qubit 0 / qubit 1, x 3 invocations) and a depth ladder of finite chains of 10 / 100 / 1000 (thorough .. 10000) one-line calibrations; each program is expanded on a 2 MiB-stack thread inside a worker process: a stack overflow / abort kills the worker and is attributed to the case, no progress for 15 s is a hang. Oracle: finite (reference expander with fuel) => Ok; instruction re-entered or unbounded growth => RecursiveCalibration error; never a crash or hang. non-trivial = program with a calibration",
    assumptions: ASSUME,
    run: |ctx| cal_run(ctx, "C18", Which::C18),
    replay: |c| cal_replay("C18", Which::C18, c),
    caps: (120, 3000),
};
pub static C19: PropDef = PropDef {
    id: "C19",
    level: "exploration",
    engine: "sweep",
    rule: "the C17 program space (emphasis: nested calibrations, DECLAREs at the start / middle / end of bodies, bodies that expand to nothing). Oracle on the source map: entries strictly increasing, at most one per source; Unmodified(i) points at the identical instruction; Rewritten ranges contiguous, disjoint and, with the unmodified entries, tiling the output; calibration_used = the rules' pick; nested maps relative to the parent range and tiling it (recursively); list_sources / list_targets mutually inverse. non-trivial = program with a calibration",
    assumptions: ASSUME,
    run: |ctx| cal_run(ctx, "C19", Which::C19),
    replay: |c| cal_replay("C19", Which::C19, c),
    caps: (50, 3000),
};
