//! C14 (standard gate unitaries) and C15 (modifiers, daggers, program unitaries) against a
//! reference unitary model written from the Quil specification tables.
use crate::engine::*;
use num_complex::Complex64 as C;
use quil_rs::expression::{Expression, InfixExpression, InfixOperator, PrefixExpression, PrefixOperator};
use quil_rs::instruction::*;
use quil_rs::Program;
use serde_json::{json, Value};

type M = Vec<Vec<C>>;
fn c(re: f64, im: f64) -> C {
    C::new(re, im)
}
fn eye(n: usize) -> M {
    (0..n).map(|i| (0..n).map(|j| if i == j { c(1., 0.) } else { c(0., 0.) }).collect()).collect()
}
fn mul(a: &M, b: &M) -> M {
    let n = a.len();
    let mut o = vec![vec![c(0., 0.); n]; n];
    for i in 0..n {
        for k in 0..n {
            if a[i][k] == c(0., 0.) {
                continue;
            }
            for j in 0..n {
                o[i][j] += a[i][k] * b[k][j];
            }
        }
    }
    o
}
fn dag(m: &M) -> M {
    let n = m.len();
    (0..n).map(|r| (0..n).map(|cc| m[cc][r].conj()).collect()).collect()
}
/// Quil specification matrices (first listed qubit = most significant within the gate)
fn base(name: &str, p: &[f64]) -> Option<M> {
    let o = c(0., 0.);
    let l = c(1., 0.);
    let i = c(0., 1.);
    let cis = |t: f64| C::new(t.cos(), t.sin());
    let perm = |n: usize, f: &dyn Fn(usize) -> usize| {
        let mut m = vec![vec![o; n]; n];
        for k in 0..n {
            m[f(k)][k] = l;
        }
        m
    };
    let diag = |d: Vec<C>| {
        let n = d.len();
        let mut m = vec![vec![o; n]; n];
        for k in 0..n {
            m[k][k] = d[k];
        }
        m
    };
    Some(match (name, p.len()) {
        ("I", 0) => eye(2),
        ("X", 0) => vec![vec![o, l], vec![l, o]],
        ("Y", 0) => vec![vec![o, -i], vec![i, o]],
        ("Z", 0) => diag(vec![l, -l]),
        ("H", 0) => {
            let s = c(std::f64::consts::FRAC_1_SQRT_2, 0.);
            vec![vec![s, s], vec![s, -s]]
        }
        ("S", 0) => diag(vec![l, i]),
        ("T", 0) => diag(vec![l, cis(std::f64::consts::FRAC_PI_4)]),
        ("CNOT", 0) => perm(4, &|k| if k & 2 != 0 { k ^ 1 } else { k }),
        ("CCNOT", 0) => perm(8, &|k| if k & 6 == 6 { k ^ 1 } else { k }),
        ("CZ", 0) => diag(vec![l, l, l, -l]),
        ("SWAP", 0) => perm(4, &|k| ((k & 1) << 1) | ((k & 2) >> 1)),
        ("CSWAP", 0) => perm(8, &|k| if k & 4 != 0 { (k & 4) | ((k & 1) << 1) | ((k & 2) >> 1) } else { k }),
        ("ISWAP", 0) => vec![vec![l, o, o, o], vec![o, o, i, o], vec![o, i, o, o], vec![o, o, o, l]],
        ("RX", 1) => {
            let t = p[0] / 2.;
            vec![vec![c(t.cos(), 0.), c(0., -t.sin())], vec![c(0., -t.sin()), c(t.cos(), 0.)]]
        }
        ("RY", 1) => {
            let t = p[0] / 2.;
            vec![vec![c(t.cos(), 0.), c(-t.sin(), 0.)], vec![c(t.sin(), 0.), c(t.cos(), 0.)]]
        }
        ("RZ", 1) => {
            let t = p[0] / 2.;
            diag(vec![cis(-t), cis(t)])
        }
        ("PHASE", 1) => diag(vec![l, cis(p[0])]),
        ("CPHASE00", 1) => diag(vec![cis(p[0]), l, l, l]),
        ("CPHASE01", 1) => diag(vec![l, cis(p[0]), l, l]),
        ("CPHASE10", 1) => diag(vec![l, l, cis(p[0]), l]),
        ("CPHASE", 1) => diag(vec![l, l, l, cis(p[0])]),
        ("PSWAP", 1) => {
            let e = cis(p[0]);
            vec![vec![l, o, o, o], vec![o, o, e, o], vec![o, e, o, o], vec![o, o, o, l]]
        }
        _ => return None,
    })
}
/// modifiers applied outermost-first
fn with_mods(name: &str, mods: &[GateModifier], p: &[f64]) -> Option<M> {
    match mods.first() {
        None => base(name, p),
        Some(GateModifier::Dagger) => Some(dag(&with_mods(name, &mods[1..], p)?)),
        Some(GateModifier::Controlled) => {
            let m = with_mods(name, &mods[1..], p)?;
            let n = m.len();
            let mut out = eye(2 * n);
            for r in 0..n {
                for cc in 0..n {
                    out[n + r][n + cc] = m[r][cc];
                }
            }
            Some(out)
        }
        Some(GateModifier::Forked) => {
            if p.len() % 2 != 0 {
                return None;
            }
            let (a, b) = p.split_at(p.len() / 2);
            let m0 = with_mods(name, &mods[1..], a)?;
            let m1 = with_mods(name, &mods[1..], b)?;
            let n = m0.len();
            let mut out = vec![vec![c(0., 0.); 2 * n]; 2 * n];
            for r in 0..n {
                for cc in 0..n {
                    out[r][cc] = m0[r][cc];
                    out[n + r][n + cc] = m1[r][cc];
                }
            }
            Some(out)
        }
    }
}
/// lift to n qubits, qubit 0 = least significant bit
fn lift(m: &M, qubits: &[u64], n: u64) -> M {
    let dim = 1usize << n;
    let k = qubits.len();
    let mut out = vec![vec![c(0., 0.); dim]; dim];
    for col in 0..dim {
        let mut loc = 0usize;
        for (pos, q) in qubits.iter().enumerate() {
            if col >> q & 1 == 1 {
                loc |= 1 << (k - 1 - pos);
            }
        }
        for lr in 0..(1 << k) {
            let v = m[lr][loc];
            if v == c(0., 0.) {
                continue;
            }
            let mut row = col;
            for (pos, q) in qubits.iter().enumerate() {
                let bit = (lr >> (k - 1 - pos)) & 1;
                row = (row & !(1 << q)) | (bit << q);
            }
            out[row][col] += v;
        }
    }
    out
}
fn placements(k: usize, n: u64) -> Vec<Vec<u64>> {
    let mut res = vec![];
    let mut stack = vec![vec![]];
    while let Some(pl) = stack.pop() {
        if pl.len() == k {
            res.push(pl);
            continue;
        }
        for q in (0..n).rev() {
            if !pl.contains(&q) {
                let mut x = pl.clone();
                x.push(q);
                stack.push(x);
            }
        }
    }
    res
}
fn maxdiff(u: &ndarray::Array2<C>, r: &M) -> f64 {
    if u.nrows() != r.len() || u.ncols() != r.len() {
        return f64::INFINITY;
    }
    let mut d = 0f64;
    for i in 0..r.len() {
        for j in 0..r.len() {
            d = d.max((u[[i, j]] - r[i][j]).norm());
        }
    }
    d
}
fn unitarity_defect(u: &ndarray::Array2<C>) -> f64 {
    let n = u.nrows();
    let mut d = 0f64;
    for i in 0..n {
        for j in 0..n {
            let mut s = c(0., 0.);
            for k in 0..n {
                s += u[[i, k]] * u[[j, k]].conj();
            }
            let want = if i == j { 1.0 } else { 0.0 };
            d = d.max((s - c(want, 0.)).norm());
        }
    }
    d
}

const NAMES: &[(&str, usize, usize)] = &[
    ("I", 1, 0),
    ("X", 1, 0),
    ("Y", 1, 0),
    ("Z", 1, 0),
    ("H", 1, 0),
    ("S", 1, 0),
    ("T", 1, 0),
    ("CNOT", 2, 0),
    ("CCNOT", 3, 0),
    ("CZ", 2, 0),
    ("SWAP", 2, 0),
    ("CSWAP", 3, 0),
    ("ISWAP", 2, 0),
    ("RX", 1, 1),
    ("RY", 1, 1),
    ("RZ", 1, 1),
    ("PHASE", 1, 1),
    ("CPHASE", 2, 1),
    ("CPHASE00", 2, 1),
    ("CPHASE01", 2, 1),
    ("CPHASE10", 2, 1),
    ("PSWAP", 2, 1),
];
fn lattice(tier: Tier) -> Vec<f64> {
    let pi = std::f64::consts::PI;
    let mut v = vec![0.0, 0.37, pi / 2.0, -1.1, 2.0 * pi + 0.1];
    if tier == Tier::Thorough {
        v.extend([pi, -pi / 4.0, 1e-3, 3.0, -7.5, 0.5]);
    }
    v
}
fn mk_gate(name: &str, p: &[f64], pl: &[u64], mods: &[GateModifier]) -> Gate {
    Gate { name: name.into(), parameters: p.iter().map(|x| Expression::Number(C::new(*x, 0.))).collect(), qubits: pl.iter().map(|q| Qubit::Fixed(*q)).collect(), modifiers: mods.to_vec() }
}

/// spellings of the constant v as a parameter expression: 0 literal, 1 -(-v), 2 (v-1)+1, 3 pi*(v/pi), 4 (2*v)/2
const FORMS: usize = 5;
fn spell(v: f64, form: usize) -> Expression {
    let num = |x: f64| Expression::Number(C::new(x, 0.));
    match form {
        1 => Expression::Prefix(PrefixExpression::new(PrefixOperator::Minus, num(-v).into())),
        2 => Expression::Infix(InfixExpression::new(num(v - 1.0).into(), InfixOperator::Plus, num(1.0).into())),
        3 => Expression::Infix(InfixExpression::new(Expression::PiConstant().into(), InfixOperator::Star, num(v / std::f64::consts::PI).into())),
        4 => Expression::Infix(InfixExpression::new(num(2.0 * v).into(), InfixOperator::Slash, num(2.0).into())),
        _ => num(v),
    }
}

fn c14_check(name: &str, p: &[f64], pl: &[u64], n: u64, form: usize) -> Vec<(String, String)> {
    let r = catch(|| {
        let mut g = mk_gate(name, p, pl, &[]);
        g.parameters = p.iter().map(|v| spell(*v, form)).collect();
        let u = match g.to_unitary(n) {
            Ok(u) => u,
            Err(e) => return vec![("error".to_string(), format!("to_unitary failed: {e}"))],
        };
        let want = lift(&base(name, p).unwrap(), pl, n);
        let mut out = vec![];
        let d = maxdiff(&u, &want);
        if !(d <= 1e-12) {
            out.push(("matrix".to_string(), format!("max entry error {d:.3e} against the specification matrix")));
        }
        let ud = unitarity_defect(&u);
        if !(ud <= 1e-12) {
            out.push(("not-unitary".to_string(), format!("U U^dagger differs from 1 by {ud:.3e}")));
        }
        out
    });
    match r {
        Ok(v) => v,
        Err(p) => vec![("panic".into(), p)],
    }
}

pub static C14: PropDef = PropDef {
    id: "C14",
    level: "exploration",
    engine: "sweep",
    rule: "the 22 standard gates x parameter lattice {0, 0.37, pi/2, -1.1, 2pi+0.1} (thorough: 11 values) x every injective placement of the gate's qubits into n = arity..5 qubits, the parameter spelled as a number literal and (at n = arity; thorough: everywhere) as the constant expressions -(-v), (v-1)+1, pi*(v/pi), (2v)/2; Gate::to_unitary(n) compared entrywise (1e-12) with the specification matrix lifted with qubit 0 as least significant bit, plus unitarity. non-trivial = every case (distinct by gate, parameter, placement, n)",
    assumptions: &["reference matrices transcribed from the Quil specification (mc/src/props/gates.rs base()); finite parameter lattice, not all reals"],
    run: |ctx| {
        let lat = lattice(ctx.tier);
        for (name, k, np) in NAMES {
            for n in (*k as u64)..=5 {
                for pl in placements(*k, n) {
                    let ps: Vec<Vec<f64>> = if *np == 1 { lat.iter().map(|x| vec![*x]).collect() } else { vec![vec![]] };
                    for p in ps {
                        // constant-expression spellings of the parameter: all of them where the gate sits in
                        // its own qubits (n = arity), the literal everywhere (thorough: all spellings everywhere)
                        let forms = if p.is_empty() { 1 } else if n == *k as u64 || ctx.tier == Tier::Thorough { FORMS } else { 1 };
                        for form in 0..forms {
                            if !ctx.take(|| json!({"gate": name, "params": p, "qubits": pl, "n": n, "form": form})) {
                                continue;
                            }
                            ctx.nontrivial(&(name, format!("{p:?}"), &pl, n, form));
                            ctx.outcome(name);
                            for (clause, detail) in c14_check(name, &p, &pl, n, form) {
                                ctx.report(viol(&clause, format!("C14:{clause}:{name}{}", if form == 0 { String::new() } else { format!(":spelling{form}") }), json!({"gate": name, "params": p, "qubits": pl, "n": n, "form": form}), format!("{name}{p:?} (spelling {form}) on qubits {pl:?} of {n}: {detail}")));
                            }
                        }
                    }
                }
            }
        }
    },
    replay: |cse| {
        let name = cse["gate"].as_str().unwrap_or("");
        let p: Vec<f64> = cse["params"].as_array().map(|a| a.iter().filter_map(|x| x.as_f64()).collect()).unwrap_or_default();
        let pl: Vec<u64> = cse["qubits"].as_array().map(|a| a.iter().filter_map(|x| x.as_u64()).collect()).unwrap_or_default();
        let n = cse["n"].as_u64().unwrap_or(1);
        if base(name, &p).is_none() {
            return vec![];
        }
        let form = cse["form"].as_u64().unwrap_or(0) as usize;
        c14_check(name, &p, &pl, n, form).into_iter().map(|(cl, d)| viol(&cl, format!("C14:{cl}:{name}{}", if form == 0 { String::new() } else { format!(":spelling{form}") }), cse.clone(), d)).collect()
    },
    caps: (50, 3000),
};

// ------------------------------------------------------------------------------------------ C15

fn mods_text(st: &[GateModifier]) -> String {
    st.iter().map(|m| match m { GateModifier::Dagger => "D", GateModifier::Controlled => "C", GateModifier::Forked => "F" }).collect::<Vec<_>>().join("")
}
fn parse_mods(s: &str) -> Vec<GateModifier> {
    s.chars().filter_map(|ch| match ch { 'D' => Some(GateModifier::Dagger), 'C' => Some(GateModifier::Controlled), 'F' => Some(GateModifier::Forked), _ => None }).collect()
}
const BASES: &[(&str, usize, usize)] = &[("X", 1, 0), ("S", 1, 0), ("RX", 1, 1), ("PHASE", 1, 1), ("CNOT", 2, 0), ("CPHASE", 2, 1), ("RZ", 1, 1), ("PSWAP", 2, 1)];

fn c15_params(np: usize, forks: usize) -> Vec<f64> {
    let lat = lattice(Tier::Quick);
    (0..(np << forks)).map(|i| lat[(i + 1) % lat.len()] + 0.1 * i as f64).collect()
}

/// build the same modified gate through the builder API: innermost modifier applied first
fn via_builders(name: &str, st: &[GateModifier], p: &[f64], pl: &[u64]) -> Option<Gate> {
    let extra = st.iter().filter(|m| !matches!(m, GateModifier::Dagger)).count();
    let base_q = &pl[extra..];
    // parameters of the innermost gate: strip the fork halves from the outside in
    let forks = st.iter().filter(|m| matches!(m, GateModifier::Forked)).count();
    let np = p.len() >> forks;
    // innermost gate gets the first np parameters; each fork (innermost first) appends the "alt" block
    let mut g = mk_gate(name, &p[..np], base_q, &[]);
    let mut qi = extra;
    let mut have = np;
    for m in st.iter().rev() {
        match m {
            GateModifier::Dagger => g = g.dagger(),
            GateModifier::Controlled => {
                qi -= 1;
                g = g.controlled(Qubit::Fixed(pl[qi]));
            }
            GateModifier::Forked => {
                qi -= 1;
                let alt: Vec<Expression> = p[have..2 * have].iter().map(|x| Expression::Number(C::new(*x, 0.))).collect();
                g = g.forked(Qubit::Fixed(pl[qi]), alt).ok()?;
                have *= 2;
            }
        }
    }
    Some(g)
}

fn c15_gate_check(name: &str, st: &[GateModifier], p: &[f64], pl: &[u64], n: u64) -> Vec<(String, String)> {
    let r = catch(|| {
        let mut out = vec![];
        let Some(refm) = with_mods(name, st, p) else { return out };
        let want = lift(&refm, pl, n);
        let mut g = mk_gate(name, p, pl, st);
        let g2 = g.clone();
        match g.to_unitary(n) {
            Err(e) => out.push(("error".to_string(), format!("to_unitary failed: {e}"))),
            Ok(u) => {
                let d = maxdiff(&u, &want);
                if !(d <= 1e-12) {
                    out.push(("modifier-matrix".to_string(), format!("max entry error {d:.3e} against modifiers applied outermost-first")));
                }
                let ud = unitarity_defect(&u);
                if !(ud <= 1e-12) {
                    out.push(("not-unitary".to_string(), format!("U U^dagger differs from 1 by {ud:.3e}")));
                }
                // computing it again on a fresh clone gives the same matrix (to_unitary takes &mut self)
                let mut g3 = g2.clone();
                if let Ok(u3) = g3.to_unitary(n) {
                    if u3 != u {
                        out.push(("not-repeatable".to_string(), "to_unitary on a fresh clone gives a different matrix".to_string()));
                    }
                }
                // DAGGER in front conjugate-transposes
                let mut gd = g2.clone().dagger();
                if let Ok(ud2) = gd.to_unitary(n) {
                    let wd = dag(&want);
                    let d2 = maxdiff(&ud2, &wd);
                    if !(d2 <= 1e-12) {
                        out.push(("dagger-not-adjoint".to_string(), format!("DAGGER of the gate differs from the adjoint by {d2:.3e}")));
                    }
                }
            }
        }
        // the builder API produces the same gate
        if let Some(gb) = via_builders(name, st, p, pl) {
            if gb != g2 {
                out.push(("builder-differs".to_string(), format!("dagger()/controlled()/forked() build {:?}, struct literal is {:?}", gb, g2)));
            }
        }
        // program of [gate, H on first qubit]: product in order; dagger program = adjoint
        let prog = Program::from_instructions(vec![Instruction::Gate(g2.clone()), Instruction::Gate(mk_gate("H", &[], &[pl[0]], &[]))]);
        match prog.to_unitary(n) {
            Ok(pu) => {
                let h = lift(&base("H", &[]).unwrap(), &[pl[0]], n);
                let wantp = mul(&h, &want);
                if !(maxdiff(&pu, &wantp) <= 1e-12) {
                    out.push(("program-product".to_string(), "program unitary is not the ordered product of its gates".to_string()));
                }
                match prog.dagger().and_then(|d| d.to_unitary(n)) {
                    Ok(pd) => {
                        if !(maxdiff(&pd, &dag(&wantp)) <= 1e-12) {
                            out.push(("program-dagger".to_string(), "unitary of the dagger program is not the adjoint".to_string()));
                        }
                    }
                    Err(e) => out.push(("program-dagger-error".to_string(), format!("{e}"))),
                }
            }
            Err(e) => out.push(("program-error".to_string(), format!("{e}"))),
        }
        out
    });
    match r {
        Ok(v) => v,
        Err(p) => vec![("panic".into(), p)],
    }
}

/// (name, qubits, parameters, modifiers as in `parse_mods`).  The modified gates strip down (modifiers
/// removed, leading control / fork qubits dropped, FORKED keeping the second half of its parameters) to
/// plain gates that are in the menu too, so a program can hold a modified gate *and* its base gate.
const PLACED: &[(&str, &[u64], &[f64], &str)] = &[
    ("X", &[0], &[], ""),
    ("H", &[1], &[], ""),
    ("S", &[2], &[], ""),
    ("RX", &[0], &[0.37], ""),
    ("RZ", &[1], &[-1.1], ""),
    ("CNOT", &[0, 1], &[], ""),
    ("CNOT", &[2, 0], &[], ""),
    ("CZ", &[1, 2], &[], ""),
    ("ISWAP", &[0, 2], &[], ""),
    ("CPHASE", &[2, 1], &[0.37], ""),
    ("PSWAP", &[1, 0], &[1.3], ""),
    ("CCNOT", &[2, 0, 1], &[], ""),
    ("S", &[2], &[], "D"),
    ("X", &[1, 0], &[], "C"),
    ("RX", &[1, 0], &[1.5, 0.37], "F"),
    ("CNOT", &[0, 1], &[], "D"),
];

fn c15_prog_check(seq: &[usize]) -> Vec<(String, String)> {
    let r = catch(|| {
        let n = 3u64;
        let mut out = vec![];
        let gates: Vec<Gate> = seq.iter().map(|k| mk_gate(PLACED[*k].0, PLACED[*k].2, PLACED[*k].1, &parse_mods(PLACED[*k].3))).collect();
        let mut want = eye(8);
        for k in seq {
            let g = lift(&with_mods(PLACED[*k].0, &parse_mods(PLACED[*k].3), PLACED[*k].2).unwrap(), PLACED[*k].1, n);
            want = mul(&g, &want);
        }
        let prog = Program::from_instructions(gates.into_iter().map(Instruction::Gate).collect());
        match prog.to_unitary(n) {
            Ok(u) => {
                if !(maxdiff(&u, &want) <= 1e-12) {
                    out.push(("program-product".to_string(), "program unitary is not the ordered product of its gates".to_string()));
                }
                if !(unitarity_defect(&u) <= 1e-12) {
                    out.push(("not-unitary".to_string(), "program unitary is not unitary".to_string()));
                }
            }
            Err(e) => out.push(("program-error".to_string(), format!("{e}"))),
        }
        match prog.dagger().and_then(|d| d.to_unitary(n)) {
            Ok(pd) => {
                if !(maxdiff(&pd, &dag(&want)) <= 1e-12) {
                    out.push(("program-dagger".to_string(), "unitary of the dagger program is not the adjoint".to_string()));
                }
            }
            Err(e) => out.push(("program-dagger-error".to_string(), format!("{e}"))),
        }
        out
    });
    match r {
        Ok(v) => v,
        Err(p) => vec![("panic".into(), p)],
    }
}

pub static C15: PropDef = PropDef {
    id: "C15",
    level: "exploration",
    engine: "sweep",
    rule: "every modifier stack of length <= 4 over {DAGGER, CONTROLLED, FORKED} (121 stacks) x base gates {X, S, RX, PHASE, CNOT, CPHASE, RZ, PSWAP} with total width <= 5 x qubit placements (first 24 per width; thorough: all) with lattice parameters (FORKED doubles them): Gate::to_unitary vs modifiers applied outermost-first, unitarity, DAGGER = adjoint, builder API == struct literal, repeatability, 2-gate program product and program dagger; plus every gate-only program of length <= 3 (thorough 4) over 16 placed gates on 3 qubits, four of them modified (DAGGER S, CONTROLLED X, FORKED RX, DAGGER CNOT) and stripping down to plain gates of the same menu (product in order, dagger = adjoint). non-trivial = case with at least one modifier or two gates",
    assumptions: &["reference: mc/src/props/gates.rs with_mods(); modifiers are applied outermost-first, CONTROLLED/FORKED take the leading qubit"],
    run: |ctx| {
        use GateModifier::*;
        let mods = [Dagger, Controlled, Forked];
        let mut stacks: Vec<Vec<GateModifier>> = vec![vec![]];
        let mut fr: Vec<Vec<GateModifier>> = vec![vec![]];
        for _ in 0..4 {
            let mut nf = vec![];
            for s in &fr {
                for m in mods {
                    let mut t = s.clone();
                    t.push(m);
                    nf.push(t);
                }
            }
            stacks.extend(nf.iter().cloned());
            fr = nf;
        }
        let take_pl = ctx.tier.pick(24usize, 100000);
        for st in &stacks {
            let extra = st.iter().filter(|m| !matches!(m, Dagger)).count();
            let forks = st.iter().filter(|m| matches!(m, Forked)).count();
            for (name, k, np) in BASES {
                let width = k + extra;
                if width > 5 {
                    continue;
                }
                let p = c15_params(*np, forks);
                let mut ns = vec![width as u64];
                if width < 5 {
                    ns.push(5);
                }
                for n in ns {
                    let pls = placements(width, n);
                    for pl in pls.into_iter().take(take_pl) {
                        if !ctx.take(|| json!({"gate": name, "modifiers": mods_text(st), "params": p, "qubits": pl, "n": n})) {
                            continue;
                        }
                        if !st.is_empty() {
                            ctx.nontrivial(&(name, mods_text(st), &pl, n));
                        }
                        ctx.outcome(&format!("stack-len-{}", st.len()));
                        for (clause, detail) in c15_gate_check(name, st, &p, &pl, n) {
                            // fingerprint: clause + the modifier-kind pattern with DAGGERs removed
                            let shape: String = mods_text(st).chars().filter(|c| *c != 'D').collect();
                            ctx.report(viol(&clause, format!("C15:{clause}:mods={}:{name}", if clause == "modifier-matrix" { shape } else { mods_text(st) }), json!({"gate": name, "modifiers": mods_text(st), "params": p, "qubits": pl, "n": n}), format!("{} {name}{p:?} on {pl:?} of {n}: {detail}", mods_text(st))));
                        }
                    }
                }
            }
        }
        let l = ctx.tier.pick(3, 4);
        for len in 1..=l {
            crate::util::sequences(PLACED.len(), len, |s| {
                if !ctx.take(|| json!({"program": s.iter().map(|k| format!("{}{:?}", PLACED[*k].0, PLACED[*k].1)).collect::<Vec<_>>(), "seq": s})) {
                    return;
                }
                if len >= 2 {
                    ctx.nontrivial(s);
                }
                ctx.outcome(&format!("program-len-{len}"));
                for (clause, detail) in c15_prog_check(s) {
                    ctx.report(viol(&clause, format!("C15:{clause}:program"), json!({"seq": s}), format!("program {:?}: {detail}", s.iter().map(|k| PLACED[*k].0).collect::<Vec<_>>())));
                }
            });
        }
    },
    replay: |cse: &Value| {
        if let Some(seq) = cse["seq"].as_array() {
            let s: Vec<usize> = seq.iter().filter_map(|x| x.as_u64().map(|v| v as usize)).filter(|k| *k < PLACED.len()).collect();
            return c15_prog_check(&s).into_iter().map(|(cl, d)| viol(&cl, format!("C15:{cl}:program"), cse.clone(), d)).collect();
        }
        let name = cse["gate"].as_str().unwrap_or("");
        let st = parse_mods(cse["modifiers"].as_str().unwrap_or(""));
        let p: Vec<f64> = cse["params"].as_array().map(|a| a.iter().filter_map(|x| x.as_f64()).collect()).unwrap_or_default();
        let pl: Vec<u64> = cse["qubits"].as_array().map(|a| a.iter().filter_map(|x| x.as_u64()).collect()).unwrap_or_default();
        let n = cse["n"].as_u64().unwrap_or(1);
        c15_gate_check(name, &st, &p, &pl, n).into_iter().map(|(cl, d)| viol(&cl, format!("C15:{cl}:replay"), cse.clone(), d)).collect()
    },
    caps: (50, 3000),
};
