//! C05 (numeric literals exact or rejected), C06 (names preserved), C07 (quoted strings round-trip).
use crate::engine::*;
use num_complex::Complex64 as C;
use quil_rs::expression::Expression;
use quil_rs::instruction::*;
use quil_rs::quil::Quil;
use quil_rs::Program;
use serde_json::{json, Value};
use std::collections::HashMap;
use std::str::FromStr;

// ------------------------------------------------------------------------------------------ C05

const MAGS: &[u128] = &[0, 1, 7, 10, 1 << 31, (1 << 53) + 1, (1u128 << 63) - 1, 1u128 << 63, (1u128 << 63) + 1, (1u128 << 64) - 1, 1u128 << 64, 10_000_000_000_000_000_000, 100_000_000_000_000_000_000];

fn spell(m: u128, radix: u32, upper: bool, sep: u8, lead: bool) -> String {
    let digits = match radix {
        2 => format!("{m:b}"),
        8 => format!("{m:o}"),
        16 => {
            if upper {
                format!("{m:X}")
            } else {
                format!("{m:x}")
            }
        }
        _ => format!("{m}"),
    };
    let digits = if lead { format!("00{digits}") } else { digits };
    let digits = match sep {
        1 if digits.len() > 1 => format!("{}_{}", &digits[..1], &digits[1..]),
        2 if digits.len() > 1 => format!("{}__{}", &digits[..digits.len() - 1], &digits[digits.len() - 1..]),
        3 => format!("{digits}_"),
        _ => digits,
    };
    let pre = match (radix, upper) {
        (2, false) => "0b",
        (2, true) => "0B",
        (8, false) => "0o",
        (8, true) => "0O",
        (16, false) => "0x",
        (16, true) => "0X",
        _ => "",
    };
    format!("{pre}{digits}")
}

/// What a literal position must hold when the text is accepted.
#[derive(Clone, Copy, PartialEq, Debug)]
enum Slot {
    /// signed 64-bit integer operand
    I64,
    /// unsigned 64-bit integer
    U64,
    /// expression (value = nearest f64)
    Expr,
    /// CALL immediate (complex, value = nearest f64)
    Imm,
}

const INT_POS: &[(&str, &str, Slot)] = &[
    ("move", "MOVE a {}", Slot::I64),
    ("add", "ADD a {}", Slot::I64),
    ("sub", "SUB a {}", Slot::I64),
    ("mul", "MUL a {}", Slot::I64),
    ("div", "DIV a {}", Slot::I64),
    ("eq", "EQ a b {}", Slot::I64),
    ("ge", "GE a b {}", Slot::I64),
    ("and", "AND a {}", Slot::I64),
    ("ior", "IOR a {}", Slot::I64),
    ("xor", "XOR a {}", Slot::I64),
    ("store", "STORE a b {}", Slot::I64),
    ("call", "CALL f {}", Slot::Imm),
    ("gate-param", "RX({}) 0", Slot::Expr),
    ("delay", "DELAY 0 \"f\" {}", Slot::Expr),
    ("set-phase", "SET-PHASE 0 \"f\" {}", Slot::Expr),
    ("raw-capture", "RAW-CAPTURE 0 \"f\" {} a", Slot::Expr),
    ("waveform-param", "PULSE 0 \"f\" w(t: {})", Slot::Expr),
    ("frame-attr", "DEFFRAME 0 \"f\":\n    K: {}", Slot::Expr),
    ("defgate-matrix", "DEFGATE G:\n    {}, 0\n    0, 1", Slot::Expr),
    ("permutation", "DEFGATE G AS PERMUTATION:\n    {}, 1", Slot::U64),
    ("pragma", "PRAGMA P {}", Slot::U64),
    ("index", "MOVE a[{}] 1", Slot::U64),
    ("qubit", "X {}", Slot::U64),
    ("length", "DECLARE a BIT[{}]", Slot::U64),
    ("offset", "DECLARE a BIT SHARING b OFFSET {} BIT", Slot::U64),
];

fn empty_eval(e: &Expression) -> Option<C> {
    e.evaluate(&HashMap::<String, C>::new(), &HashMap::<String, Vec<f64>>::new()).ok()
}

enum Got {
    Int(i128),
    Real(f64),
    Cplx(C),
    Other(String),
}

fn extract(pos: &str, p: &Program) -> Got {
    let body: Vec<&Instruction> = p.body_instructions().collect();
    let ao = |s: &ArithmeticOperand| match s {
        ArithmeticOperand::LiteralInteger(v) => Got::Int(*v as i128),
        ArithmeticOperand::LiteralReal(v) => Got::Real(*v),
        o => Got::Other(format!("{o:?}")),
    };
    let ex = |e: &Expression| match empty_eval(e) {
        Some(z) => Got::Cplx(z),
        None => Got::Other(format!("{e:?}")),
    };
    match pos {
        "permutation" => {
            let defs: Vec<Instruction> = p.to_instructions();
            if let Some(Instruction::GateDefinition(g)) = defs.first() {
                if let GateSpecification::Permutation(v) = &g.specification {
                    return v.first().map(|x| Got::Int(*x as i128)).unwrap_or(Got::Other("empty".into()));
                }
            }
            Got::Other(format!("{defs:?}"))
        }
        "defgate-matrix" => {
            if let Some(Instruction::GateDefinition(g)) = p.to_instructions().first() {
                if let GateSpecification::Matrix(m) = &g.specification {
                    return ex(&m[0][0]);
                }
            }
            Got::Other("not a matrix".into())
        }
        "frame-attr" => {
            if let Some(Instruction::FrameDefinition(f)) = p.to_instructions().first() {
                if let Some(AttributeValue::Expression(e)) = f.attributes.get("K") {
                    return ex(e);
                }
            }
            Got::Other("no attribute".into())
        }
        "defwaveform" => {
            if let Some(Instruction::WaveformDefinition(w)) = p.to_instructions().first() {
                if let Some(e) = w.definition.matrix.first() {
                    return ex(e);
                }
            }
            Got::Other("no waveform".into())
        }
        "length" => p.memory_regions.get("a").map(|r| Got::Int(r.size.length as i128)).unwrap_or(Got::Other("no region".into())),
        "offset" => p
            .memory_regions
            .get("a")
            .and_then(|r| r.sharing.as_ref())
            .and_then(|s| s.offsets.first())
            .map(|o| Got::Int(o.offset as i128))
            .unwrap_or(Got::Other("no offset".into())),
        _ => {
            if body.len() != 1 {
                return Got::Other(format!("{} body instructions", body.len()));
            }
            match body[0] {
                Instruction::Move(m) if pos == "index" => Got::Int(m.destination.index as i128),
                Instruction::Move(m) => ao(&m.source),
                Instruction::Arithmetic(m) => ao(&m.source),
                Instruction::Store(m) => ao(&m.source),
                Instruction::Comparison(m) => match &m.rhs {
                    ComparisonOperand::LiteralInteger(v) => Got::Int(*v as i128),
                    ComparisonOperand::LiteralReal(v) => Got::Real(*v),
                    o => Got::Other(format!("{o:?}")),
                },
                Instruction::BinaryLogic(m) => match &m.source {
                    BinaryOperand::LiteralInteger(v) => Got::Int(*v as i128),
                    o => Got::Other(format!("{o:?}")),
                },
                Instruction::Call(c) => match c.arguments.as_slice() {
                    [UnresolvedCallArgument::Immediate(z)] => Got::Cplx(*z),
                    o => Got::Other(format!("{o:?}")),
                },
                Instruction::Gate(g) if pos == "qubit" => match g.qubits.as_slice() {
                    [Qubit::Fixed(q)] => Got::Int(*q as i128),
                    o => Got::Other(format!("{o:?}")),
                },
                Instruction::Gate(g) => g.parameters.first().map(ex).unwrap_or(Got::Other("no parameter".into())),
                Instruction::Delay(d) => ex(&d.duration),
                Instruction::SetPhase(s) => ex(&s.phase),
                Instruction::SetScale(s) => ex(&s.scale),
                Instruction::RawCapture(r) => ex(&r.duration),
                Instruction::Pulse(pl) => pl.waveform.parameters.get("t").map(ex).unwrap_or(Got::Other("no parameter".into())),
                Instruction::Pragma(pr) => match pr.arguments.as_slice() {
                    [PragmaArgument::Integer(v)] => Got::Int(*v as i128),
                    o => Got::Other(format!("{o:?}")),
                },
                o => Got::Other(format!("{o:?}")),
            }
        }
    }
}

/// the oracle for one literal text in one position. `int` = Some(mathematical integer value)
/// or `real` = Some(correctly rounded value)
fn c05_check(pos: &str, tmpl: &str, slot: Slot, lit: &str, int: Option<i128>, real: Option<f64>) -> (bool, Vec<(String, String)>) {
    let src = tmpl.replace("{}", lit);
    let r = catch(|| Program::from_str(&src));
    let p = match r {
        Err(pan) => return (false, vec![("panic".into(), format!("`{src}` panicked at {pan}"))]),
        Ok(Err(_)) => return (false, vec![]),
        Ok(Ok(p)) => p,
    };
    let got = extract(pos, &p);
    let mut out = vec![];
    let bad = |what: String| vec![("wrong-value".to_string(), format!("`{src}` accepted, {what}"))];
    if let Some(v) = int {
        match (slot, got) {
            (Slot::I64, Got::Int(g)) | (Slot::U64, Got::Int(g)) => {
                if g != v {
                    out = bad(format!("operand is {g}, the literal denotes {v}"));
                }
            }
            (Slot::I64, Got::Real(g)) => out = vec![("kind-changed".into(), format!("`{src}`: integer literal became the real {g}"))],
            (Slot::Expr, Got::Cplx(z)) | (Slot::Imm, Got::Cplx(z)) => {
                let want = v as f64; // nearest f64 of the integer
                if !(z.re == want && z.im == 0.0) {
                    out = bad(format!("expression value is {z}, the literal denotes {v} (nearest f64 {want})"));
                }
            }
            (_, Got::Other(o)) => out = vec![("unexpected-shape".into(), format!("`{src}` accepted as {o}"))],
            (s, _) => out = vec![("unexpected-shape".into(), format!("`{src}`: slot {s:?} holds another kind"))],
        }
    } else if let Some(v) = real {
        match got {
            Got::Real(g) => {
                if !(g == v || (g.is_nan() && v.is_nan())) {
                    out = bad(format!("operand is {g:e}, nearest f64 of the literal is {v:e}"));
                }
            }
            Got::Cplx(z) => {
                if !(z.re == v && z.im == 0.0) {
                    out = bad(format!("value is {z}, nearest f64 of the literal is {v:e}"));
                }
            }
            Got::Int(g) => out = vec![("kind-changed".into(), format!("`{src}`: real literal became the integer {g}"))],
            Got::Other(o) => out = vec![("unexpected-shape".into(), format!("`{src}` accepted as {o}"))],
        }
    }
    (true, out)
}

const REALS: &[&str] = &[
    "1.", ".5", "1.5", "0.0", "1e3", "1E+3", "1.5e-3", "1e-400", "1e400", "4.9e-324", "2.5e-324", "1.7976931348623157e308", "1.7976931348623159e308", "0.1", "1_0.2_5", "00.5", "123456789012345678901234567890.0", "9007199254740993.0",
    "9223372036854775808.0", "0.30000000000000004", "1e22", "1e23", "5e-1", "1_0e1_0", "2E3", "4E-2", "1_5E+1", "2e3",
    // more than 19 significant digits, at and next to the midpoint of two adjacent doubles (exact ties,
    // one unit above, one unit below): the digits beyond the 19th decide the rounding
    "1.00000000000000011102230246251565404236316680908203125", "1.000000000000000111022302462515654042363166809082031251", "1.000000000000000111022302462515654042363166809082031249", "1.00000000000000077715611723760957829654216766357421875", "1.000000000000000777156117237609578296542167663574218751", "1.000000000000000777156117237609578296542167663574218749", "0.100000000000000012490009027033011079765856266021728515625", "0.1000000000000000124900090270330110797658562660217285156251", "0.1000000000000000124900090270330110797658562660217285156249", "0.0000100000000000000016650634863946134345269456389360129833221435546875", "0.00001000000000000000166506348639461343452694563893601298332214355468751", "0.00001000000000000000166506348639461343452694563893601298332214355468749", "123456.7890000000115833245217800140380859375", "123456.78900000001158332452178001403808593751", "123456.78900000001158332452178001403808593749", "10000000000000001048576.0", "10000000000000001048576.01", "0.000100000000000000011102230246251565404236316680908203126E+4",
];
const REAL_POS: &[(&str, &str, Slot)] = &[
    ("move", "MOVE a {}", Slot::I64),
    ("add", "ADD a {}", Slot::I64),
    ("gt", "GT a b {}", Slot::I64),
    ("store", "STORE a b {}", Slot::I64),
    ("call", "CALL f {}", Slot::Imm),
    ("gate-param", "RX({}) 0", Slot::Expr),
    ("delay", "DELAY 0 \"f\" {}", Slot::Expr),
    ("delay-bare", "DELAY 0 {}", Slot::Expr),
    ("set-scale", "SET-SCALE 0 \"f\" {}", Slot::Expr),
    ("waveform-param", "PULSE 0 \"f\" w(t: {})", Slot::Expr),
    ("defwaveform", "DEFWAVEFORM w:\n    {}", Slot::Expr),
];

pub static C05: PropDef = PropDef {
    id: "C05",
    level: "exploration",
    engine: "sweep",
    rule: "generated literals with value known by construction: 13 magnitudes (0 .. 2^31, 2^53+1, 2^63-1, 2^63, 2^63+1, 2^64-1, 2^64, 10^19, 10^20; thorough: every 2^k and 2^k+-1 for k <= 65 and every 10^k for k <= 21, ~220 magnitudes) x {dec, 0b, 0o, 0x} x prefix/digit case x 4 separator patterns x leading zeros x sign {none,-,+} x 25 operand positions (classical operands, CALL immediate, 7 expression positions, permutation entries, PRAGMA, memory index, qubit, DECLARE length, OFFSET); 46 real spellings (incl. upper- and lower-case exponents without a fraction, and 18 with 25-73 significant digits at and next to midpoints of adjacent doubles) x 3 signs x 11 positions. Accepted => operand equals the mathematical value with the literal kind preserved. non-trivial = accepted literal (distinct by text)",
    assumptions: &["reference value of a real literal = Rust's correctly rounded str::parse::<f64> of the digits without separators"],
    run: |ctx| {
        let mut mags: Vec<u128> = MAGS.to_vec();
        if ctx.tier == Tier::Thorough {
            // every power of two up to 2^65 and its two neighbours, plus decimal round numbers
            for k in 0..=65u32 {
                for d in [-1i128, 0, 1] {
                    let v = (1i128 << k) + d;
                    if v >= 0 && !mags.contains(&(v as u128)) {
                        mags.push(v as u128);
                    }
                }
            }
            for k in 1..=21u32 {
                let v = 10u128.pow(k);
                if !mags.contains(&v) {
                    mags.push(v);
                }
            }
        }
        ctx.bound("integer_magnitudes", json!(mags.len()));
        for &m in &mags {
            for radix in [10u32, 2, 8, 16] {
                for upper in [false, true] {
                    if radix == 10 && upper {
                        continue;
                    }
                    for sep in 0..4u8 {
                        for lead in [false, true] {
                            for sign in ["", "-", "+"] {
                                let lit = format!("{sign}{}", spell(m, radix, upper, sep, lead));
                                let val: i128 = if sign == "-" { -(m as i128) } else { m as i128 };
                                for (pos, tmpl, slot) in INT_POS {
                                    if *slot == Slot::U64 && !sign.is_empty() {
                                        // a sign in an unsigned position: only "never panics / never a wrong value"
                                    }
                                    if !ctx.take(|| json!({"position": pos, "literal": lit})) {
                                        continue;
                                    }
                                    let (acc, vs) = c05_check(pos, tmpl, *slot, &lit, Some(val), None);
                                    if acc {
                                        ctx.nontrivial(&(pos, &lit));
                                    }
                                    ctx.outcome(if acc { "int:accepted" } else { "int:rejected" });
                                    for (clause, detail) in vs {
                                        let class = if m >= (1u128 << 63) { ">=2^63" } else { "<2^63" };
                                        ctx.report(viol(&clause, format!("C05:{clause}:{pos}:{class}:sign{sign}"), json!({"position": pos, "literal": lit, "int": val.to_string()}), detail));
                                    }
                                }
                            }
                        }
                    }
                }
            }
        }
        for lit in REALS {
            let val: f64 = lit.replace('_', "").parse().unwrap();
            for sign in ["", "-", "+"] {
                let text = format!("{sign}{lit}");
                let v = if sign == "-" { -val } else { val };
                for (pos, tmpl, slot) in REAL_POS {
                    if !ctx.take(|| json!({"position": pos, "literal": text})) {
                        continue;
                    }
                    let (acc, vs) = c05_check(pos, tmpl, *slot, &text, None, Some(v));
                    if acc {
                        ctx.nontrivial(&(pos, &text));
                    }
                    ctx.outcome(if acc { "real:accepted" } else { "real:rejected" });
                    for (clause, detail) in vs {
                        ctx.report(viol(&clause, format!("C05:{clause}:{pos}:real:sign{sign}"), json!({"position": pos, "literal": text, "real": v}), detail));
                    }
                }
            }
        }
        if ctx.tier == Tier::Thorough {
            // two literals in one instruction (comparison with index and literal; expression with two)
            for &m1 in MAGS {
                for &m2 in MAGS {
                    for s1 in ["", "-"] {
                        for (tmpl, pos) in [("EQ a b[{1}] {2}", "two:cmp"), ("RX({1}+{2}) 0", "two:expr")] {
                            let l1 = format!("{}", m1);
                            let l2 = format!("{s1}{}", m2);
                            let src = tmpl.replace("{1}", &l1).replace("{2}", &l2);
                            if !ctx.take(|| json!({"text": src})) {
                                continue;
                            }
                            let r = catch(|| Program::from_str(&src));
                            match r {
                                Err(p) => ctx.report(viol("panic", format!("C05:panic:{pos}"), json!({"text": src}), p)),
                                Ok(Err(_)) => ctx.outcome("two:rejected"),
                                Ok(Ok(p)) => {
                                    ctx.outcome("two:accepted");
                                    ctx.nontrivial(&src);
                                    let v2: i128 = if s1 == "-" { -(m2 as i128) } else { m2 as i128 };
                                    let ok = match p.body_instructions().next() {
                                        Some(Instruction::Comparison(c)) => c.lhs.index as u128 == m1 && matches!(c.rhs, ComparisonOperand::LiteralInteger(v) if v as i128 == v2),
                                        Some(Instruction::Gate(g)) => empty_eval(&g.parameters[0]).map(|z| z.re == (m1 as f64) + (v2 as f64)).unwrap_or(false),
                                        _ => false,
                                    };
                                    if !ok {
                                        ctx.report(viol("wrong-value", format!("C05:wrong-value:{pos}"), json!({"text": src}), format!("`{src}` accepted with a wrong value")));
                                    }
                                }
                            }
                        }
                    }
                }
            }
        }
    },
    replay: |c| {
        if let Some(t) = c["text"].as_str() {
            return match catch(|| Program::from_str(t)) {
                Err(p) => vec![viol("panic", "C05:panic:replay", c.clone(), p)],
                _ => vec![],
            };
        }
        let pos = c["position"].as_str().unwrap_or("");
        let lit = c["literal"].as_str().unwrap_or("");
        let int: Option<i128> = c["int"].as_str().and_then(|s| s.parse().ok());
        let real = c["real"].as_f64();
        let table: Vec<&(&str, &str, Slot)> = if int.is_some() { INT_POS.iter().collect() } else { REAL_POS.iter().collect() };
        let Some((_, tmpl, slot)) = table.into_iter().find(|(p, _, _)| *p == pos) else { return vec![] };
        c05_check(pos, tmpl, *slot, lit, int, real).1.into_iter().map(|(cl, d)| viol(&cl, format!("C05:{cl}:{pos}:replay"), c.clone(), d)).collect()
    },
    caps: (50, 3000),
};

// ------------------------------------------------------------------------------------------ C06

type Extract = fn(&Program) -> Vec<String>;
fn first_body(p: &Program) -> Option<Instruction> {
    p.body_instructions().next().cloned()
}
fn expr_names(e: &Expression, out: &mut Vec<String>) {
    let mut v = vec![];
    crate::refm::expr_refs(e, &mut v);
    out.extend(v.into_iter().map(|m| m.name));
    fn vars(e: &Expression, out: &mut Vec<String>) {
        match e {
            Expression::Variable(v) => out.push(v.clone()),
            Expression::FunctionCall(f) => vars(&f.expression, out),
            Expression::Infix(i) => {
                vars(&i.left, out);
                vars(&i.right, out);
            }
            Expression::Prefix(p) => vars(&p.expression, out),
            _ => {}
        }
    }
    vars(e, out);
}

/// (position, template with {} for the name, extractor of every occurrence of the name, expected count)
fn c06_positions() -> Vec<(&'static str, &'static str, Extract, usize)> {
    vec![
        ("declare", "DECLARE {} REAL", |p| p.memory_regions.keys().cloned().collect(), 1),
        ("sharing", "DECLARE zz BIT SHARING {}", |p| p.memory_regions.values().filter_map(|r| r.sharing.as_ref().map(|s| s.name.clone())).collect(), 1),
        ("move-dst", "MOVE {} 1.0", |p| match first_body(p) { Some(Instruction::Move(m)) => vec![m.destination.name], _ => vec![] }, 1),
        ("move-src", "MOVE zz {}", |p| match first_body(p) { Some(Instruction::Move(Move { source: ArithmeticOperand::MemoryReference(m), .. })) => vec![m.name], _ => vec![] }, 1),
        ("move-indexed", "MOVE {}[1] {}[0]", |p| match first_body(p) { Some(Instruction::Move(Move { destination, source: ArithmeticOperand::MemoryReference(m) })) => vec![destination.name, m.name], _ => vec![] }, 2),
        ("arith", "ADD {} {}", |p| match first_body(p) { Some(Instruction::Arithmetic(Arithmetic { destination, source: ArithmeticOperand::MemoryReference(m), .. })) => vec![destination.name, m.name], _ => vec![] }, 2),
        ("logic", "XOR {} {}", |p| match first_body(p) { Some(Instruction::BinaryLogic(BinaryLogic { destination, source: BinaryOperand::MemoryReference(m), .. })) => vec![destination.name, m.name], _ => vec![] }, 2),
        ("unary", "NEG {}", |p| match first_body(p) { Some(Instruction::UnaryLogic(u)) => vec![u.operand.name], _ => vec![] }, 1),
        ("compare", "EQ {} {} {}", |p| match first_body(p) { Some(Instruction::Comparison(Comparison { destination, lhs, rhs: ComparisonOperand::MemoryReference(m), .. })) => vec![destination.name, lhs.name, m.name], _ => vec![] }, 3),
        ("exchange", "EXCHANGE {} {}", |p| match first_body(p) { Some(Instruction::Exchange(e)) => vec![e.left.name, e.right.name], _ => vec![] }, 2),
        ("convert", "CONVERT {} {}", |p| match first_body(p) { Some(Instruction::Convert(e)) => vec![e.destination.name, e.source.name], _ => vec![] }, 2),
        ("load", "LOAD {} {} {}", |p| match first_body(p) { Some(Instruction::Load(l)) => vec![l.destination.name, l.source, l.offset.name], _ => vec![] }, 3),
        ("store", "STORE {} {} {}", |p| match first_body(p) { Some(Instruction::Store(Store { destination, offset, source: ArithmeticOperand::MemoryReference(m) })) => vec![destination, offset.name, m.name], _ => vec![] }, 3),
        ("measure-target", "MEASURE 0 {}", |p| match first_body(p) { Some(Instruction::Measurement(Measurement { target: Some(t), .. })) => vec![t.name], _ => vec![] }, 1),
        ("measure-name", "MEASURE!{} 0", |p| match first_body(p) { Some(Instruction::Measurement(Measurement { name: Some(n), .. })) => vec![n], _ => vec![] }, 1),
        ("capture-target", "CAPTURE 0 \"f\" w {}", |p| match first_body(p) { Some(Instruction::Capture(c)) => vec![c.memory_reference.name], _ => vec![] }, 1),
        ("raw-capture-target", "RAW-CAPTURE 0 \"f\" 1.0 {}[2]", |p| match first_body(p) { Some(Instruction::RawCapture(c)) => vec![c.memory_reference.name], _ => vec![] }, 1),
        ("jump-when", "JUMP-WHEN @{} {}", |p| match first_body(p) { Some(Instruction::JumpWhen(j)) => vec![j.target.to_quil_or_debug().trim_start_matches('@').to_string(), j.condition.name], _ => vec![] }, 2),
        ("jump-unless", "JUMP-UNLESS @{} {}[1]", |p| match first_body(p) { Some(Instruction::JumpUnless(j)) => vec![j.target.to_quil_or_debug().trim_start_matches('@').to_string(), j.condition.name], _ => vec![] }, 2),
        ("label", "LABEL @{}", |p| match first_body(p) { Some(Instruction::Label(l)) => vec![l.target.to_quil_or_debug().trim_start_matches('@').to_string()], _ => vec![] }, 1),
        ("jump", "JUMP @{}", |p| match first_body(p) { Some(Instruction::Jump(l)) => vec![l.target.to_quil_or_debug().trim_start_matches('@').to_string()], _ => vec![] }, 1),
        ("expr-bare", "RX({}) 0", |p| match first_body(p) { Some(Instruction::Gate(g)) => { let mut o = vec![]; for e in &g.parameters { expr_names(e, &mut o) } o } _ => vec![] }, 1),
        ("expr-indexed", "RX({}[0]) 0", |p| match first_body(p) { Some(Instruction::Gate(g)) => { let mut o = vec![]; for e in &g.parameters { expr_names(e, &mut o) } o } _ => vec![] }, 1),
        ("expr-nested", "RX(2*{}+sin(-{}[1])) 0", |p| match first_body(p) { Some(Instruction::Gate(g)) => { let mut o = vec![]; for e in &g.parameters { expr_names(e, &mut o) } o } _ => vec![] }, 2),
        ("expr-tight-minus", "RX({}-(1)) 0", |p| match first_body(p) { Some(Instruction::Gate(g)) => { let mut o = vec![]; for e in &g.parameters { expr_names(e, &mut o) } o } _ => vec![] }, 1),
        ("expr-tight-double-minus", "RX({}--(0.5)) 0", |p| match first_body(p) { Some(Instruction::Gate(g)) => { let mut o = vec![]; for e in &g.parameters { expr_names(e, &mut o) } o } _ => vec![] }, 1),
        ("expr-tight-double-minus-space", "RX(2*{}-- 1) 0", |p| match first_body(p) { Some(Instruction::Gate(g)) => { let mut o = vec![]; for e in &g.parameters { expr_names(e, &mut o) } o } _ => vec![] }, 1),
        ("expr-tight-plus", "RX({}+1) 0", |p| match first_body(p) { Some(Instruction::Gate(g)) => { let mut o = vec![]; for e in &g.parameters { expr_names(e, &mut o) } o } _ => vec![] }, 1),
        ("expr-tight-star", "RX({}*2) 0", |p| match first_body(p) { Some(Instruction::Gate(g)) => { let mut o = vec![]; for e in &g.parameters { expr_names(e, &mut o) } o } _ => vec![] }, 1),
        ("expr-tight-slash", "RX({}/2) 0", |p| match first_body(p) { Some(Instruction::Gate(g)) => { let mut o = vec![]; for e in &g.parameters { expr_names(e, &mut o) } o } _ => vec![] }, 1),
        ("expr-tight-caret", "RX({}^2) 0", |p| match first_body(p) { Some(Instruction::Gate(g)) => { let mut o = vec![]; for e in &g.parameters { expr_names(e, &mut o) } o } _ => vec![] }, 1),
        ("expr-tight-after-minus", "RX(1-{}) 0", |p| match first_body(p) { Some(Instruction::Gate(g)) => { let mut o = vec![]; for e in &g.parameters { expr_names(e, &mut o) } o } _ => vec![] }, 1),
        ("expr-tight-double-prefix", "RX(--{}) 0", |p| match first_body(p) { Some(Instruction::Gate(g)) => { let mut o = vec![]; for e in &g.parameters { expr_names(e, &mut o) } o } _ => vec![] }, 1),
        ("expr-tight-index-minus", "RX({}[1]--(1)) 0", |p| match first_body(p) { Some(Instruction::Gate(g)) => { let mut o = vec![]; for e in &g.parameters { expr_names(e, &mut o) } o } _ => vec![] }, 1),
        ("expr-variable", "RX(%{}) 0", |p| match first_body(p) { Some(Instruction::Gate(g)) => { let mut o = vec![]; for e in &g.parameters { expr_names(e, &mut o) } o } _ => vec![] }, 1),
        ("set-phase", "SET-PHASE 0 \"f\" 2*{}", |p| match first_body(p) { Some(Instruction::SetPhase(s)) => { let mut o = vec![]; expr_names(&s.phase, &mut o); o } _ => vec![] }, 1),
        ("shift-frequency", "SHIFT-FREQUENCY 0 \"f\" {}", |p| match first_body(p) { Some(Instruction::ShiftFrequency(s)) => { let mut o = vec![]; expr_names(&s.frequency, &mut o); o } _ => vec![] }, 1),
        ("delay-expr", "DELAY 0 \"f\" {}", |p| match first_body(p) { Some(Instruction::Delay(s)) => { let mut o = vec![]; expr_names(&s.duration, &mut o); o } _ => vec![] }, 1),
        ("waveform", "PULSE 0 \"f\" {}/{}({}: {})", |p| match first_body(p) { Some(Instruction::Pulse(s)) => { let mut o: Vec<String> = s.waveform.name.split('/').map(|x| x.to_string()).collect(); for (k, e) in s.waveform.parameters.iter() { o.push(k.clone()); expr_names(e, &mut o); } o } _ => vec![] }, 4),
        ("frame-attr", "DEFFRAME 0 \"f\":\n    {}: {}", |p| match p.to_instructions().first() { Some(Instruction::FrameDefinition(f)) => { let mut o = vec![]; for (k, v) in f.attributes.iter() { o.push(k.clone()); if let AttributeValue::Expression(e) = v { expr_names(e, &mut o); } } o } _ => vec![] }, 2),
        ("gate", "{} 0", |p| match first_body(p) { Some(Instruction::Gate(g)) => vec![g.name], _ => vec![] }, 1),
        ("gate-modified", "DAGGER {}(1) 0", |p| match first_body(p) { Some(Instruction::Gate(g)) => vec![g.name], _ => vec![] }, 1),
        ("qubit-variable", "X {}", |p| match first_body(p) { Some(Instruction::Gate(g)) => g.qubits.iter().filter_map(|q| if let Qubit::Variable(v) = q { Some(v.clone()) } else { None }).collect(), _ => vec![] }, 1),
        ("defgate", "DEFGATE {}(%{}) AS MATRIX:\n    %{}", |p| match p.to_instructions().first() { Some(Instruction::GateDefinition(g)) => { let mut o = vec![g.name.clone()]; o.extend(g.parameters.iter().cloned()); if let GateSpecification::Matrix(m) = &g.specification { expr_names(&m[0][0], &mut o); } o } _ => vec![] }, 3),
        ("defcircuit", "DEFCIRCUIT {}(%{}) {}:\n    RX(%{}) {}", |p| match p.to_instructions().first() { Some(Instruction::CircuitDefinition(c)) => { let mut o = vec![c.name.clone()]; o.extend(c.parameters.iter().cloned()); o.extend(c.qubit_variables.iter().cloned()); if let Some(Instruction::Gate(g)) = c.instructions.first() { for e in &g.parameters { expr_names(e, &mut o) } for q in &g.qubits { if let Qubit::Variable(v) = q { o.push(v.clone()) } } } o } _ => vec![] }, 5),
        ("defcal", "DEFCAL {}(%{}) {}:\n    Y {}", |p| match p.to_instructions().first() { Some(Instruction::CalibrationDefinition(c)) => { let mut o = vec![c.identifier.name.clone()]; for e in &c.identifier.parameters { expr_names(e, &mut o) } for q in &c.identifier.qubits { if let Qubit::Variable(v) = q { o.push(v.clone()) } } if let Some(Instruction::Gate(g)) = c.instructions.first() { for q in &g.qubits { if let Qubit::Variable(v) = q { o.push(v.clone()) } } } o } _ => vec![] }, 4),
        ("defcal-measure", "DEFCAL MEASURE {} {}:\n    NOP", |p| match p.to_instructions().first() { Some(Instruction::MeasureCalibrationDefinition(c)) => { let mut o = vec![]; if let Qubit::Variable(v) = &c.identifier.qubit { o.push(v.clone()) } if let Some(t) = &c.identifier.target { o.push(t.clone()) } o } _ => vec![] }, 2),
        ("defwaveform", "DEFWAVEFORM {}(%{}):\n    %{}", |p| match p.to_instructions().first() { Some(Instruction::WaveformDefinition(w)) => { let mut o = vec![w.name.clone()]; o.extend(w.definition.parameters.iter().cloned()); for e in &w.definition.matrix { expr_names(e, &mut o) } o } _ => vec![] }, 3),
        ("pragma", "PRAGMA {} {}", |p| match first_body(p) { Some(Instruction::Pragma(pr)) => { let mut o = vec![pr.name.clone()]; for a in &pr.arguments { if let PragmaArgument::Identifier(i) = a { o.push(i.clone()) } } o } _ => vec![] }, 2),
        ("call", "CALL {} {} {}[1]", |p| match first_body(p) { Some(Instruction::Call(c)) => { let mut o = vec![c.name.clone()]; for a in c.arguments() { match a { UnresolvedCallArgument::Identifier(i) => o.push(i.clone()), UnresolvedCallArgument::MemoryReference(m) => o.push(m.name.clone()), _ => {} } } o } _ => vec![] }, 3),
        ("extern-param", "PRAGMA EXTERN f \"INTEGER ({} : mut REAL[])\"", |p| p.try_extern_signature_map_from_pragma_map().ok().map(|m| m.iter().flat_map(|(_, s)| s.parameters().iter().map(|x| x.name().to_string()).collect::<Vec<_>>()).collect()).unwrap_or_default(), 1),
    ]
}

fn c06_check(pos: &str, tmpl: &str, ex: Extract, count: usize, nm: &str) -> (bool, Vec<(String, String)>) {
    let src = tmpl.replace("{}", nm);
    match catch(|| Program::from_str(&src)) {
        Err(p) => (false, vec![("panic".into(), format!("`{src}`: {p}"))]),
        Ok(Err(_)) => (false, vec![]),
        Ok(Ok(p)) => {
            let names = match catch(|| ex(&p)) {
                Ok(n) => n,
                Err(pan) => return (true, vec![("panic".into(), pan)]),
            };
            let mut out = vec![];
            if names.len() != count {
                // the text was accepted as something else (e.g. a name that is a keyword in this position)
                return (false, vec![]);
            }
            if names.iter().any(|n| n != nm) {
                out.push(("name-changed".to_string(), format!("`{}` at position {pos}: the program holds {:?}", src.replace('\n', "\\n"), names)));
            }
            (true, out)
        }
    }
}

fn c06_names(tier: Tier) -> Vec<String> {
    let mut v: Vec<String> = ["a", "b", "Theta", "aB-c", "_x1", "THETA", "Q-1", "zZ"].iter().map(|s| s.to_string()).collect();
    if tier == Tier::Thorough {
        let al = ['a', 'B', '_', '-', '1'];
        let mut cur: Vec<String> = vec![String::new()];
        for _ in 0..3 {
            let mut nx = vec![];
            for s in &cur {
                for c in al {
                    let mut t = s.clone();
                    t.push(c);
                    nx.push(t);
                }
            }
            for t in &nx {
                if quil_rs::validation::identifier::validate_user_identifier(t).is_ok() && !v.contains(t) {
                    v.push(t.clone());
                }
            }
            cur = nx;
        }
    }
    v.retain(|n| !["pi", "i", "sin", "cos", "sqrt", "exp", "cis"].contains(&n.to_lowercase().as_str()));
    v
}

pub static C06: PropDef = PropDef {
    id: "C06",
    level: "exploration",
    engine: "sweep",
    rule: "8 names (thorough: every valid user identifier of length <= 3 over {a,B,_,-,1} as well) x 52 name-bearing positions (declarations, every classical operand, bare / indexed / nested memory names and variables in expressions of gates, a name written tightly against every infix / prefix operator and against runs of dashes (`NAME--(0.5)`, `2*NAME-- 1`), SET-*, SHIFT-*, DELAY, waveform names and parameters, frame attribute keys, labels and jump targets, gate / DEFGATE / DEFCIRCUIT / DEFCAL / DEFWAVEFORM names, parameters and qubit variables, pragma, CALL, LOAD/STORE, measurement names and targets, extern parameter names); the name found in the AST must equal the source spelling byte for byte; plus the consistency program (all references to one region carry the same name, type check accepts). non-trivial = accepted (name, position) pair",
    assumptions: &["names whose lower-case form is pi, i, sin, cos, sqrt, exp, cis are excluded (the statement's exception)"],
    run: |ctx| {
        let names = c06_names(ctx.tier);
        let positions = c06_positions();
        ctx.bound("names", json!(names.len()));
        ctx.bound("positions", json!(positions.iter().map(|p| p.0).collect::<Vec<_>>()));
        for nm in &names {
            for (pos, tmpl, ex, count) in &positions {
                if !ctx.take(|| json!({"name": nm, "position": pos})) {
                    continue;
                }
                let (acc, vs) = c06_check(pos, tmpl, *ex, *count, nm);
                if acc {
                    ctx.nontrivial(&(nm, pos));
                }
                ctx.outcome(if acc { "accepted" } else { "rejected-or-other-shape" });
                for (clause, detail) in vs {
                    ctx.report(viol(&clause, format!("C06:{clause}:{pos}"), json!({"name": nm, "position": pos}), detail));
                }
            }
            // consistency clause
            if ctx.take(|| json!({"name": nm, "position": "consistency"})) {
                for (cl, d) in c06_consistency(nm) {
                    ctx.report(viol(&cl, format!("C06:{cl}"), json!({"name": nm, "position": "consistency"}), d));
                }
                ctx.nontrivial(&(nm, "consistency"));
                ctx.outcome("consistency");
            }
        }
    },
    replay: |c| {
        let nm = c["name"].as_str().unwrap_or("");
        let pos = c["position"].as_str().unwrap_or("");
        if pos == "consistency" {
            return c06_consistency(nm).into_iter().map(|(cl, d)| viol(&cl, format!("C06:{cl}"), c.clone(), d)).collect();
        }
        let positions = c06_positions();
        let Some((p, tmpl, ex, count)) = positions.iter().find(|x| x.0 == pos) else { return vec![] };
        c06_check(p, tmpl, *ex, *count, nm).1.into_iter().map(|(cl, d)| viol(&cl, format!("C06:{cl}:{pos}"), c.clone(), d)).collect()
    },
    caps: (50, 1000),
};

fn c06_consistency(nm: &str) -> Vec<(String, String)> {
    let src = format!("DECLARE {nm} REAL\nSET-PHASE 0 \"f\" {nm}\nMOVE {nm} 1.0\nRX({nm}) 0\nRX({nm}[0]) 0\nSHIFT-PHASE 0 \"f\" 2*{nm}\n");
    let r = catch(|| {
        let p = match Program::from_str(&src) {
            Ok(p) => p,
            Err(_) => return vec![],
        };
        let mut names: Vec<String> = p.memory_regions.keys().cloned().collect();
        for i in p.body_instructions() {
            match i {
                Instruction::SetPhase(s) => expr_names(&s.phase, &mut names),
                Instruction::ShiftPhase(s) => expr_names(&s.phase, &mut names),
                Instruction::Move(m) => names.push(m.destination.name.clone()),
                Instruction::Gate(g) => {
                    for e in &g.parameters {
                        expr_names(e, &mut names)
                    }
                }
                _ => {}
            }
        }
        let mut out = vec![];
        if names.len() != 6 || names.iter().any(|n| n != nm) {
            out.push(("inconsistent-region-name".to_string(), format!("references to region `{nm}` carry names {names:?}")));
        }
        if let Err(e) = quil_rs::program::type_check::type_check(&p) {
            out.push(("consistency-type-check".to_string(), format!("type check rejects the consistency program for `{nm}`: {e}")));
        }
        out
    });
    match r {
        Ok(v) => v,
        Err(p) => vec![("panic".into(), p)],
    }
}

// ------------------------------------------------------------------------------------------ C07

fn c07_strings(maxlen: usize) -> Vec<String> {
    let alpha = ['"', '\\', '\n', ' ', '#', ';', 'a'];
    let mut strs = vec![String::new()];
    let mut fr = vec![String::new()];
    for _ in 0..maxlen {
        let mut nf = vec![];
        for s in &fr {
            for c in alpha {
                let mut t = s.clone();
                t.push(c);
                nf.push(t);
            }
        }
        strs.extend(nf.iter().cloned());
        fr = nf;
    }
    strs
}

const C07_POS: &[&str] = &[
    "pragma-data", "include", "defframe-name", "pulse-frame", "capture-frame", "raw-capture-frame", "set-phase-frame", "set-scale-frame", "set-frequency-frame", "shift-phase-frame", "shift-frequency-frame", "swap-phases-frames", "delay-one-name",
    "delay-two-names", "frame-attribute-string", "defcal-body-frame", "defcal-body-pragma", "defmeasurecal-body-pragma", "defcircuit-body-pragma", "defcircuit-body-frame",
];

fn c07_build(pos: &str, st: &str) -> Instruction {
    let one = Expression::Number(C::new(1.0, 0.0));
    let f = |n: &str| FrameIdentifier::new(n.to_string(), vec![Qubit::Fixed(0)]);
    let wf = || WaveformInvocation::new("w".into(), Default::default());
    match pos {
        "pragma-data" => Instruction::Pragma(Pragma::new("P".into(), vec![], Some(st.to_string()))),
        "include" => Instruction::Include(Include::new(st.to_string())),
        "defframe-name" => Instruction::FrameDefinition(FrameDefinition::new(f(st), [("K".to_string(), AttributeValue::Expression(one.clone()))].into_iter().collect())),
        "pulse-frame" => Instruction::Pulse(Pulse::new(true, f(st), wf())),
        "capture-frame" => Instruction::Capture(Capture::new(false, f(st), MemoryReference::new("ro".into(), 0), wf())),
        "raw-capture-frame" => Instruction::RawCapture(RawCapture::new(true, f(st), one.clone(), MemoryReference::new("ro".into(), 0))),
        "set-phase-frame" => Instruction::SetPhase(SetPhase::new(f(st), one.clone())),
        "set-scale-frame" => Instruction::SetScale(SetScale::new(f(st), one.clone())),
        "set-frequency-frame" => Instruction::SetFrequency(SetFrequency::new(f(st), one.clone())),
        "shift-phase-frame" => Instruction::ShiftPhase(ShiftPhase::new(f(st), one.clone())),
        "shift-frequency-frame" => Instruction::ShiftFrequency(ShiftFrequency::new(f(st), one.clone())),
        "swap-phases-frames" => Instruction::SwapPhases(SwapPhases::new(f(st), FrameIdentifier::new(format!("{st}z"), vec![Qubit::Fixed(1)]))),
        "delay-one-name" => Instruction::Delay(Delay::new(one.clone(), vec![st.to_string()], vec![Qubit::Fixed(0)])),
        "delay-two-names" => Instruction::Delay(Delay::new(one.clone(), vec![st.to_string(), format!("z{st}")], vec![Qubit::Fixed(0), Qubit::Fixed(1)])),
        "frame-attribute-string" => Instruction::FrameDefinition(FrameDefinition::new(f("f"), [("K".to_string(), AttributeValue::String(st.to_string()))].into_iter().collect())),
        "defcal-body-pragma" => Instruction::CalibrationDefinition(CalibrationDefinition::new(
            CalibrationIdentifier::new("X".into(), vec![], vec![], vec![Qubit::Fixed(0)]).unwrap(),
            vec![Instruction::Pragma(Pragma::new("P".into(), vec![], Some(st.to_string()))), Instruction::Nop()],
        )),
        "defmeasurecal-body-pragma" => Instruction::MeasureCalibrationDefinition(MeasureCalibrationDefinition::new(
            MeasureCalibrationIdentifier::new(None, Qubit::Fixed(0), None),
            vec![Instruction::Pragma(Pragma::new("P".into(), vec![], Some(st.to_string()))), Instruction::Nop()],
        )),
        "defcircuit-body-pragma" => Instruction::CircuitDefinition(CircuitDefinition::new("C".into(), vec![], vec![], vec![Instruction::Pragma(Pragma::new("P".into(), vec![], Some(st.to_string()))), Instruction::Nop()])),
        "defcircuit-body-frame" => Instruction::CircuitDefinition(CircuitDefinition::new("C".into(), vec![], vec![], vec![Instruction::Pulse(Pulse::new(true, f(st), wf())), Instruction::Nop()])),
        _ => Instruction::CalibrationDefinition(CalibrationDefinition::new(
            CalibrationIdentifier::new("X".into(), vec![], vec![], vec![Qubit::Fixed(0)]).unwrap(),
            vec![Instruction::Delay(Delay::new(one.clone(), vec![st.to_string()], vec![Qubit::Fixed(0)])), Instruction::Pulse(Pulse::new(false, f(st), wf()))],
        )),
    }
}

fn c07_check(pos: &str, st: &str) -> Vec<(String, String)> {
    let r = catch(|| {
        let ins = c07_build(pos, st);
        let txt = match ins.to_quil() {
            Ok(t) => t,
            Err(e) => return vec![("serialize".to_string(), format!("{e:?}"))],
        };
        match Program::from_str(&txt) {
            Err(_) => vec![("reparse".to_string(), format!("string {st:?} at {pos}: printed text {txt:?} does not parse"))],
            Ok(p) => {
                if p.to_instructions() != vec![ins.clone()] {
                    vec![("string-changed".to_string(), format!("string {st:?} at {pos}: printed text {txt:?} parses to {:?}", p.to_instructions().iter().map(|i| i.to_quil_or_debug()).collect::<Vec<_>>()))]
                } else {
                    vec![]
                }
            }
        }
    });
    match r {
        Ok(v) => v,
        Err(p) => vec![("panic".into(), p)],
    }
}

pub static C07: PropDef = PropDef {
    id: "C07",
    level: "exploration",
    engine: "sweep",
    rule: "every string of length <= 4 (thorough <= 6) over {quote, backslash, newline, space, #, ;, a} (2801 / 137257 strings) x 20 string-bearing positions (pragma data, include, frame name in DEFFRAME / PULSE / CAPTURE / RAW-CAPTURE / SET-* / SHIFT-* / SWAP-PHASES, DELAY with one and two frame names, string frame attribute, frame names and pragma data inside DEFCAL / DEFCAL MEASURE / DEFCIRCUIT bodies), built through the API, printed and parsed. non-trivial = string containing a character that needs escaping (distinct by string+position)",
    assumptions: &["bounded alphabet and length"],
    run: |ctx| {
        let strs = c07_strings(ctx.tier.pick(4, 6));
        ctx.bound("strings", json!(strs.len()));
        ctx.bound("positions", json!(C07_POS));
        for st in &strs {
            for pos in C07_POS {
                if !ctx.take(|| json!({"string": st, "position": pos})) {
                    continue;
                }
                if st.contains(['"', '\\', '\n']) {
                    ctx.nontrivial(&(st, pos));
                }
                let vs = c07_check(pos, st);
                ctx.outcome(if vs.is_empty() { "roundtrips" } else { "fails" });
                for (clause, detail) in vs {
                    ctx.report(viol(&clause, format!("C07:{clause}:{pos}"), json!({"string": st, "position": pos}), detail));
                }
            }
        }
    },
    replay: |c| {
        let st = c["string"].as_str().unwrap_or("");
        let pos = c["position"].as_str().unwrap_or("");
        c07_check(pos, st).into_iter().map(|(cl, d)| viol(&cl, format!("C07:{cl}:{pos}"), c.clone(), d)).collect()
    },
    caps: (50, 3000),
};
