//! C26 (default frame matching), C27 (reported memory accesses), C31 (extern signatures and CALL
//! resolution).  DESIGN.md §4.
use crate::engine::*;
use crate::refm::*;
use crate::util::*;
use quil_rs::instruction::*;
use quil_rs::quil::Quil;
use quil_rs::Program;
use serde_json::{json, Value};
use std::collections::BTreeSet;
use std::str::FromStr;

// ------------------------------------------------------------------------------------------ C26

const UNIVERSE: &[&str] = &["0 \"a\"", "1 \"a\"", "2 \"a\"", "0 \"b\"", "0 1 \"c\"", "1 2 \"c\"", "0 2 \"a\"", "0 1 2 \"b\"", "1 0 \"c\"", "2 \"c\"", "1 \"b\"", "0 \"c\"", "0 1 \"a\"", "2 1 \"c\""];

fn c26_menu() -> Vec<String> {
    let mut menu: Vec<String> = vec![];
    for f in ["0 \"a\"", "1 \"a\"", "0 1 \"c\"", "1 0 \"c\"", "2 \"z\"", "0 1 2 \"b\""] {
        for nb in ["", "NONBLOCKING "] {
            menu.push(format!("{nb}PULSE {f} w"));
            menu.push(format!("{nb}CAPTURE {f} w ro"));
            menu.push(format!("{nb}RAW-CAPTURE {f} 1.0 ro"));
        }
        for op in ["SET-PHASE", "SET-SCALE", "SET-FREQUENCY", "SHIFT-PHASE", "SHIFT-FREQUENCY"] {
            menu.push(format!("{op} {f} 1.0"));
        }
    }
    for qs in ["0", "1", "2", "0 1", "1 0", "1 2", "0 1 2", ""] {
        menu.push(format!("FENCE {qs}").trim_end().to_string());
        if !qs.is_empty() {
            for names in ["", "\"a\"", "\"a\" \"c\"", "\"z\""] {
                menu.push(format!("DELAY {qs} {names} 1.0").replace("  ", " "));
            }
        }
    }
    for q in ["0", "1", "2"] {
        menu.push(format!("RESET {q}"));
    }
    menu.push("RESET".into());
    for s in ["SWAP-PHASES 0 \"a\" 1 \"a\"", "SWAP-PHASES 0 \"a\" 0 \"a\"", "SWAP-PHASES 0 \"a\" 2 \"z\"", "SWAP-PHASES 0 1 \"c\" 1 0 \"c\""] {
        menu.push(s.into());
    }
    for s in ["X 0", "MOVE ro 1", "NOP", "MEASURE 0 ro", "JUMP @l", "PRAGMA p", "HALT", "WAIT", "LABEL @l", "DECLARE x BIT", "CALL f ro"] {
        menu.push(s.into());
    }
    menu
}

fn c26_program(mask: u32) -> String {
    let mut src = String::from("DECLARE ro BIT\n");
    for (k, f) in UNIVERSE.iter().enumerate() {
        if mask & (1 << k) != 0 {
            src.push_str(&format!("DEFFRAME {f}:\n    A: 1\n"));
        }
    }
    src.push_str("X 0\nX 1\nX 2\n");
    src
}

fn c26_check(p: &Program, i: &Instruction) -> Vec<(String, String)> {
    let mut out = vec![];
    let got = match catch(|| {
        DefaultHandler.matching_frames(p, i).map(|m| {
            let u: S = m.used.iter().map(|f| fid(f)).collect();
            let b: S = m.blocked.iter().map(|f| fid(f)).collect();
            (u, b)
        })
    }) {
        Ok(g) => g,
        Err(pan) => return vec![("panic".into(), pan)],
    };
    let defined: S = p.frames.get_keys().into_iter().map(fid).collect();
    let bare_reset = matches!(i, Instruction::Reset(Reset { qubit: None }));
    let r = ref_frames(p, i);
    let rf = r.rf || bare_reset;
    match got {
        None => {
            if rf {
                out.push(("none-for-frame-instruction".into(), String::new()));
            }
        }
        Some((u, b)) => {
            if !rf {
                out.push(("some-for-non-frame-instruction".into(), format!("used={u:?} blocked={b:?}")));
            }
            if !u.is_subset(&defined) || !b.is_subset(&defined) {
                out.push(("undefined-frame-reported".into(), format!("used={u:?} blocked={b:?}")));
            }
            if u.intersection(&b).next().is_some() {
                out.push(("used-blocked-overlap".into(), format!("used={u:?} blocked={b:?}")));
            }
            if r.rf {
                if u != r.used {
                    out.push(("used-mismatch".into(), format!("used={u:?}, rules give {:?}", r.used)));
                }
                if b != r.blocked {
                    out.push(("blocked-mismatch".into(), format!("blocked={b:?}, rules give {:?}", r.blocked)));
                }
            }
        }
    }
    out
}

fn kind_of(i: &Instruction) -> String {
    let d = format!("{i:?}");
    d.split(|c: char| !c.is_alphanumeric()).next().unwrap_or("").to_string()
}

pub static C26: PropDef = PropDef {
    id: "C26",
    level: "exploration",
    engine: "sweep",
    rule: "every subset of a 10-frame (thorough: 14-frame) universe over qubits {0,1,2} and names {a,b,c} x a ~130-instruction menu (pulse/capture/raw-capture blocking and not on 6 frames incl. undefined, DELAY on every qubit set with 0/1/2 names, FENCE on every qubit set and bare, RESET q and bare, SET-*/SHIFT-*, SWAP-PHASES, non-frame instructions); non-trivial = case where the instruction matches at least one frame (distinct by frame set + instruction)",
    assumptions: &["reference = the Quil-T rules as quoted in the property statement (mc/src/refm.rs ref_frames); bare RESET only checked for defined/disjoint"],
    run: |ctx| {
        let menu = c26_menu();
        let insts: Vec<Instruction> = menu.iter().map(|s| Instruction::from_str(s).unwrap_or_else(|e| panic!("{s}: {e}"))).collect();
        let nf = ctx.tier.pick(10, 14);
        ctx.bound("frame_universe", json!(&UNIVERSE[..nf]));
        ctx.bound("menu_size", json!(menu.len()));
        for mask in 0..(1u32 << nf) {
            let mut prog: Option<Program> = None;
            for (mi, i) in insts.iter().enumerate() {
                if !ctx.take(|| json!({"frames_mask": mask, "instruction": menu[mi]})) {
                    continue;
                }
                let p = prog.get_or_insert_with(|| Program::from_str(&c26_program(mask)).expect("c26 program"));
                let vs = c26_check(p, i);
                let r = ref_frames(p, i);
                if !r.used.is_empty() || !r.blocked.is_empty() {
                    ctx.nontrivial(&(mask, mi));
                }
                ctx.outcome(&format!("{}:{}", kind_of(i), if r.rf { "frame" } else { "other" }));
                for (clause, detail) in vs {
                    // fingerprint: clause + instruction kind (+ blocking flag); shrink the frame set
                    let fails = |m: u32| {
                        let p = Program::from_str(&c26_program(m)).unwrap();
                        c26_check(&p, i).iter().any(|(c, _)| *c == clause)
                    };
                    let mut m = mask;
                    for k in 0..nf {
                        if m & (1 << k) != 0 && fails(m & !(1 << k)) {
                            m &= !(1 << k);
                        }
                    }
                    ctx.report(viol(&clause, format!("C26:{clause}:{}", menu[mi]), json!({"frames_mask": m, "instruction": menu[mi]}), format!("frames mask {m:b}: `{}`: {detail}", menu[mi])));
                }
            }
        }
    },
    replay: |c| {
        let mask = c["frames_mask"].as_u64().unwrap_or(0) as u32;
        let Some(t) = c["instruction"].as_str() else { return vec![] };
        let Ok(i) = Instruction::from_str(t) else { return vec![] };
        let p = Program::from_str(&c26_program(mask)).unwrap();
        c26_check(&p, &i).into_iter().map(|(cl, d)| viol(&cl, format!("C26:{cl}:{t}"), c.clone(), d)).collect()
    },
    caps: (50, 3000),
};

// ------------------------------------------------------------------------------------------ C27

fn c27_cases(tier: Tier) -> Vec<String> {
    let mut cases: Vec<String> = vec![];
    let refs = ["a", "b[1]", "c"];
    let srcs = ["a", "b[1]", "c", "1", "-2", "1.5"];
    let exprs: Vec<&str> = if tier == Tier::Quick {
        vec!["1.5", "a", "b[1]*2", "sin(a)+c[2]", "-(%v+pi)", "a^a", "cis(b[0])/(c-1)", "a+sin(2*b[1])", "1.5*-(b+c[1])"]
    } else {
        vec!["1.5", "a", "b[1]*2", "sin(a)+c[2]", "-(%v+pi)", "a^a", "cis(b[0])/(c-1)", "a+sin(2*b[1])", "1.5*-(b+c[1])", "(a+b)*(c-a)", "sqrt(-a[3])", "exp(cos(c))", "2^(b*b)", "%x*a[1]", "pi", "-c", "(1+2)*3"]
    };
    for d in refs {
        for src in srcs {
            for op in ["ADD", "SUB", "MUL", "DIV", "MOVE"] {
                cases.push(format!("{op} {d} {src}"));
            }
            if !src.contains('.') {
                for op in ["AND", "IOR", "XOR"] {
                    cases.push(format!("{op} {d} {src}"));
                }
            }
            for l in refs {
                for op in ["EQ", "GT", "GE", "LT", "LE"] {
                    cases.push(format!("{op} {d} {l} {src}"));
                }
                cases.push(format!("STORE {} {l} {src}", d.split('[').next().unwrap()));
            }
        }
        cases.push(format!("NEG {d}"));
        cases.push(format!("NOT {d}"));
        for o in refs {
            cases.push(format!("EXCHANGE {d} {o}"));
            cases.push(format!("CONVERT {d} {o}"));
            for x in ["a", "c"] {
                cases.push(format!("LOAD {d} {x} {o}"));
            }
        }
        cases.push(format!("JUMP-WHEN @l {d}"));
        cases.push(format!("JUMP-UNLESS @l {d}"));
        cases.push(format!("MEASURE 0 {d}"));
        cases.push(format!("MEASURE q {d}"));
        for e in &exprs {
            cases.push(format!("CAPTURE 0 \"f\" flat(duration: 1, iq: {e}) {d}"));
            cases.push(format!("NONBLOCKING RAW-CAPTURE 0 \"f\" {e} {d}"));
        }
    }
    for e in &exprs {
        for t in [
            "RX({}) 0",
            "DELAY 0 \"f\" ({})",
            "SET-PHASE 0 \"f\" {}",
            "SET-SCALE 0 \"f\" {}",
            "SET-FREQUENCY 0 \"f\" {}",
            "SHIFT-PHASE 0 \"f\" {}",
            "SHIFT-FREQUENCY 0 \"f\" {}",
            "PULSE 0 \"f\" w(a: 1, z: {})",
            "NONBLOCKING PULSE 0 \"f\" w(y: {}, z: c[1])",
            "DAGGER G(1, {}) 0 1",
            "CONTROLLED G({}, b) 0 1",
        ] {
            cases.push(t.replace("{}", e));
        }
    }
    for t in ["X 0", "MEASURE 0", "RESET", "RESET 0", "FENCE", "FENCE 0", "NOP", "HALT", "WAIT", "LABEL @l", "JUMP @l", "PRAGMA A b \"a\"", "SWAP-PHASES 0 \"f\" 1 \"f\"", "DELAY 0 1.5"] {
        cases.push(t.to_string());
    }
    cases
}

fn sets_of(m: &quil_rs::program::MemoryAccesses) -> Mem {
    Mem { r: m.reads.iter().cloned().collect(), w: m.writes.iter().cloned().collect(), c: m.captures.iter().cloned().collect() }
}

/// body instructions for the definition layer: every access kind alone (capture-only, read-only,
/// write-only, nothing) so that a union that drops one set is visible
const C27_BODY: &[&str] = &[
    "X 0",
    "MEASURE 0 a",
    "MEASURE 0",
    "CAPTURE 0 \"f\" flat(duration: 1.0, iq: 1.0) b",
    "CAPTURE 0 \"f\" flat(duration: 1.0, iq: c) b",
    "RAW-CAPTURE 0 \"f\" 1.0 c",
    "MOVE a 1",
    "MOVE a b",
    "RX(c) 0",
    "SHIFT-PHASE 0 \"f\" b",
    "NOP",
];
const C27_DEFS: &[&str] = &["DEFCAL G 0:", "DEFCAL G(c) 0:", "DEFCIRCUIT G:", "DEFCAL MEASURE 0 addr:", "DEFCAL MEASURE 0:"];

/// a definition's accesses = reads of its head parameters + union over its body instructions
fn c27_check_def(head: &str, body: &[&str]) -> Option<Vec<(String, String)>> {
    let text = format!("{head}\n{}", body.iter().map(|b| format!("    {b}\n")).collect::<String>());
    let p = Program::from_str(&text).ok()?;
    let defs = p.to_instructions();
    if defs.len() != 1 {
        return None;
    }
    let mut want = Mem::default();
    if head.contains("(c)") {
        want.r.insert("c".to_string());
    }
    for b in body {
        let m = ref_mem(&Instruction::from_str(b).ok()?)?;
        want.r.extend(m.r);
        want.w.extend(m.w);
        want.c.extend(m.c);
    }
    let empty = ExternSignatureMap::try_from(Program::new().extern_pragma_map.clone()).ok()?;
    let got = match catch(|| DefaultHandler.memory_accesses(&empty, &defs[0])) {
        Err(p) => return Some(vec![("panic".into(), p)]),
        Ok(Err(e)) => return Some(vec![("error".into(), format!("{e:?}"))]),
        Ok(Ok(m)) => sets_of(&m),
    };
    let mut out = vec![];
    if got.r != want.r {
        out.push(("def-reads".to_string(), format!("reads {:?}, expected {:?}", got.r, want.r)));
    }
    if got.w != want.w {
        out.push(("def-writes".to_string(), format!("writes {:?}, expected {:?}", got.w, want.w)));
    }
    if got.c != want.c {
        out.push(("def-captures".to_string(), format!("captures {:?}, expected {:?}", got.c, want.c)));
    }
    Some(out)
}

fn c27_check_text(t: &str) -> Option<Vec<(String, String)>> {
    let i = Instruction::from_str(t).ok()?;
    let want = ref_mem(&i)?;
    let empty = ExternSignatureMap::try_from(Program::new().extern_pragma_map.clone()).ok()?;
    let got = match catch(|| DefaultHandler.memory_accesses(&empty, &i)) {
        Err(p) => return Some(vec![("panic".into(), p)]),
        Ok(Err(e)) => return Some(vec![("error".into(), format!("{e:?}"))]),
        Ok(Ok(m)) => sets_of(&m),
    };
    let mut out = vec![];
    if got.r != want.r {
        out.push(("reads".to_string(), format!("reads {:?}, expected {:?}", got.r, want.r)));
    }
    if got.w != want.w {
        out.push(("writes".to_string(), format!("writes {:?}, expected {:?}", got.w, want.w)));
    }
    if got.c != want.c {
        out.push(("captures".to_string(), format!("captures {:?}, expected {:?}", got.c, want.c)));
    }
    Some(out)
}

// --- calls (shared by C27 and C31)

#[derive(Clone, Debug, PartialEq)]
struct PT {
    mutable: bool,
    ty: ScalarType,
    /// None = scalar, Some(None) = T[], Some(Some(k)) = T[k]
    vec: Option<Option<u64>>,
}
fn tyname(t: ScalarType) -> &'static str {
    match t {
        ScalarType::Bit => "BIT",
        ScalarType::Integer => "INTEGER",
        ScalarType::Octet => "OCTET",
        ScalarType::Real => "REAL",
    }
}
fn pt_text(p: &PT) -> String {
    format!(
        "{}{}{}",
        if p.mutable { "mut " } else { "" },
        tyname(p.ty),
        match p.vec {
            None => String::new(),
            Some(None) => "[]".into(),
            Some(Some(k)) => format!("[{k}]"),
        }
    )
}
fn build_sig(ret: Option<ScalarType>, ps: &[PT], names: &[&str]) -> ExternSignature {
    let params = ps
        .iter()
        .enumerate()
        .map(|(k, p)| {
            let dt = match p.vec {
                None => ExternParameterType::Scalar(p.ty),
                Some(None) => ExternParameterType::VariableLengthVector(p.ty),
                Some(Some(l)) => ExternParameterType::FixedLengthVector(Vector::new(p.ty, l)),
            };
            ExternParameter::try_new(names[k % names.len()].to_string(), p.mutable, dt).expect("parameter")
        })
        .collect();
    ExternSignature::new(ret, params)
}
const DECL: &str = "DECLARE k INTEGER\nDECLARE x REAL\nDECLARE v INTEGER[2]\nDECLARE w INTEGER[3]\nDECLARE bb BIT[2]\nDECLARE oo OCTET[2]\n";
fn region(name: &str) -> Option<(ScalarType, u64)> {
    match name {
        "k" => Some((ScalarType::Integer, 1)),
        "x" => Some((ScalarType::Real, 1)),
        "v" => Some((ScalarType::Integer, 2)),
        "w" => Some((ScalarType::Integer, 3)),
        "bb" => Some((ScalarType::Bit, 2)),
        "oo" => Some((ScalarType::Octet, 2)),
        _ => None,
    }
}
#[derive(Clone, Debug)]
enum Arg {
    Id(&'static str),
    Ref(&'static str, u64),
    Imm(f64, f64),
}
const ARGS: &[Arg] = &[
    Arg::Id("k"),
    Arg::Ref("k", 0),
    Arg::Id("x"),
    Arg::Ref("x", 0),
    Arg::Id("v"),
    Arg::Ref("v", 1),
    Arg::Id("w"),
    Arg::Id("bb"),
    Arg::Id("oo"),
    Arg::Ref("oo", 1),
    Arg::Id("u"),
    Arg::Ref("u", 0),
    Arg::Imm(1.0, 0.0),
    Arg::Imm(1.5, 0.0),
    Arg::Imm(0.0, 2.0),
];
fn arg_text(a: &Arg) -> String {
    match a {
        Arg::Id(n) => n.to_string(),
        Arg::Ref(n, i) => format!("{n}[{i}]"),
        Arg::Imm(r, i) => format!("imm({r},{i})"),
    }
}
fn to_unresolved(a: &Arg) -> UnresolvedCallArgument {
    match a {
        Arg::Id(n) => UnresolvedCallArgument::Identifier(n.to_string()),
        Arg::Ref(n, i) => UnresolvedCallArgument::MemoryReference(MemoryReference::new(n.to_string(), *i)),
        Arg::Imm(r, i) => UnresolvedCallArgument::Immediate(num_complex::Complex64::new(*r, *i)),
    }
}
/// slot-fitting rules of the C31 statement
fn fits(a: &Arg, slot: &PT, is_ret: bool) -> bool {
    let name = match a {
        Arg::Imm(..) => None,
        Arg::Id(n) | Arg::Ref(n, _) => Some(*n),
    };
    if is_ret {
        return name.and_then(region).map(|(t, _)| t == slot.ty).unwrap_or(false);
    }
    match slot.vec {
        Some(len) => match a {
            Arg::Id(n) => region(n).map(|(t, l)| t == slot.ty && len.map(|k| k == l).unwrap_or(true)).unwrap_or(false),
            _ => false,
        },
        None => match a {
            Arg::Imm(..) => !slot.mutable,
            _ => name.and_then(region).map(|(t, _)| t == slot.ty).unwrap_or(false),
        },
    }
}

fn param_types(tier: Tier) -> Vec<PT> {
    let mut v = vec![];
    let tys: &[ScalarType] = if tier == Tier::Quick { &[ScalarType::Integer, ScalarType::Real, ScalarType::Bit] } else { &[ScalarType::Integer, ScalarType::Real, ScalarType::Bit, ScalarType::Octet] };
    for ty in tys {
        for mutable in [false, true] {
            // T[1] is the boundary between a scalar and a vector (DECLARE's default length); T[0] only in the thorough tier
            for vec in [None, Some(None), Some(Some(2)), Some(Some(1)), Some(Some(0))] {
                if vec == Some(Some(0)) && (*ty == ScalarType::Bit || tier == Tier::Quick) {
                    continue;
                }
                v.push(PT { mutable, ty: *ty, vec });
            }
        }
    }
    v
}

struct CallCase {
    ret: Option<ScalarType>,
    ps: Vec<PT>,
    args: Vec<Arg>,
}
fn call_case_json(c: &CallCase) -> Value {
    json!({"ret": c.ret.map(tyname), "params": c.ps.iter().map(pt_text).collect::<Vec<_>>(), "args": c.args.iter().map(arg_text).collect::<Vec<_>>()})
}
fn parse_call_case(v: &Value) -> Option<CallCase> {
    let ty = |s: &str| match s {
        "BIT" => Some(ScalarType::Bit),
        "INTEGER" => Some(ScalarType::Integer),
        "OCTET" => Some(ScalarType::Octet),
        "REAL" => Some(ScalarType::Real),
        _ => None,
    };
    let ret = match v["ret"].as_str() {
        Some(s) => Some(ty(s)?),
        None => None,
    };
    let mut ps = vec![];
    for p in strs(&v["params"]) {
        let mutable = p.starts_with("mut ");
        let rest = p.trim_start_matches("mut ");
        let (base, vec) = match rest.find('[') {
            None => (rest, None),
            Some(b) => {
                let inner = &rest[b + 1..rest.len() - 1];
                (&rest[..b], Some(if inner.is_empty() { None } else { Some(inner.parse().ok()?) }))
            }
        };
        ps.push(PT { mutable, ty: ty(base)?, vec });
    }
    let mut args = vec![];
    for a in strs(&v["args"]) {
        let found = ARGS.iter().find(|x| arg_text(x) == a)?;
        args.push(found.clone());
    }
    Some(CallCase { ret, ps, args })
}

/// evaluate one call case; `want_c27` selects the C27 (memory accesses) or C31 (resolution) clauses
fn call_check(c: &CallCase, c27: bool, decl: &Program) -> (bool, Vec<(String, String)>) {
    let sig = build_sig(c.ret, &c.ps, &["p", "q2", "Rr"]);
    let mut out = vec![];
    let r = catch(|| {
        // route through PRAGMA EXTERN so that the public path is the one exercised
        let mut p = decl.clone();
        let sig_text = sig.to_quil().map_err(|e| format!("{e:?}"))?;
        let pragma = Pragma::new("EXTERN".into(), vec![PragmaArgument::Identifier("f".into())], Some(sig_text.clone()));
        p.add_instruction(Instruction::Pragma(pragma));
        let map = p.try_extern_signature_map_from_pragma_map().map_err(|e| format!("{:?}", e.1))?;
        let call = Call::try_new("f".into(), c.args.iter().map(to_unresolved).collect()).map_err(|e| format!("{e:?}"))?;
        let resolved = call.resolve_arguments(&p.memory_regions, &map).is_ok();
        let acc = DefaultHandler.memory_accesses(&map, &Instruction::Call(call)).ok().map(|m| sets_of(&m));
        Ok::<_, String>((sig_text, resolved, acc))
    });
    let (sig_text, resolved, acc) = match r {
        Err(p) => return (false, vec![("panic".into(), p)]),
        Ok(Err(e)) => return (false, vec![(if c27 { "call-setup".into() } else { "signature-route".into() }, e)]),
        Ok(Ok(x)) => x,
    };
    let nslots = c.ps.len() + usize::from(c.ret.is_some());
    let want = c.args.len() == nslots && {
        let mut ok = true;
        let mut k = 0;
        if let Some(rt) = c.ret {
            ok &= fits(&c.args[0], &PT { mutable: true, ty: rt, vec: None }, true);
            k = 1;
        }
        for (j, slot) in c.ps.iter().enumerate() {
            ok &= fits(&c.args[k + j], slot, false);
        }
        ok
    };
    if !c27 {
        if resolved != want {
            out.push(("resolve".to_string(), format!("signature `{sig_text}` args {:?}: resolves={resolved}, rules say {want}", c.args.iter().map(arg_text).collect::<Vec<_>>())));
        }
    } else if c.args.len() == nslots {
        if let Some(acc) = acc {
            let nm = |a: &Arg| match a {
                Arg::Id(n) | Arg::Ref(n, _) => Some(n.to_string()),
                Arg::Imm(..) => None,
            };
            let mut w = S::new();
            let mut rmin = S::new();
            let mut rmax = S::new();
            let mut k = 0;
            if c.ret.is_some() {
                if let Some(n) = nm(&c.args[0]) {
                    w.insert(n.clone());
                    rmax.insert(n);
                }
                k = 1;
            }
            for (j, slot) in c.ps.iter().enumerate() {
                if let Some(n) = nm(&c.args[k + j]) {
                    rmin.insert(n.clone());
                    rmax.insert(n.clone());
                    if slot.mutable {
                        w.insert(n);
                    }
                }
            }
            if acc.w != w {
                out.push(("call-writes".to_string(), format!("`{sig_text}` args {:?}: writes {:?}, expected {:?}", c.args.iter().map(arg_text).collect::<Vec<_>>(), acc.w, w)));
            }
            if !rmin.is_subset(&acc.r) || !acc.r.is_subset(&rmax) {
                out.push(("call-reads".to_string(), format!("`{sig_text}` args {:?}: reads {:?}, expected between {:?} and {:?}", c.args.iter().map(arg_text).collect::<Vec<_>>(), acc.r, rmin, rmax)));
            }
            if !acc.c.is_empty() {
                out.push(("call-captures".to_string(), format!("captures {:?}", acc.c)));
            }
        } else {
            out.push(("call-accesses-error".to_string(), format!("`{sig_text}`: memory_accesses failed for a call with matching arity")));
        }
    }
    (resolved, out)
}

fn enumerate_calls(ctx: &mut Ctx, id: &'static str, c27: bool) {
    let decl = Program::from_str(DECL).unwrap();
    let pts = param_types(ctx.tier);
    let rets: Vec<Option<ScalarType>> = vec![None, Some(ScalarType::Integer), Some(ScalarType::Real)];
    let max_arity = 2usize;
    ctx.bound("max_parameters", json!(max_arity));
    ctx.bound("parameter_types", json!(pts.iter().map(pt_text).collect::<Vec<_>>()));
    ctx.bound("arguments", json!(ARGS.iter().map(arg_text).collect::<Vec<_>>()));
    for ret in &rets {
        for arity in 0..=max_arity {
            if ret.is_none() && arity == 0 {
                continue;
            }
            sequences(pts.len(), arity, |pi| {
                let ps: Vec<PT> = pi.iter().map(|k| pts[*k].clone()).collect();
                let nslots = arity + usize::from(ret.is_some());
                // all argument tuples of the right arity, plus arity -1 / +1 over a few tuples
                let mut lens = vec![nslots];
                if nslots > 0 {
                    lens.push(nslots - 1);
                }
                lens.push(nslots + 1);
                for l in lens {
                    let wrong = l != nslots;
                    let mut count = 0;
                    sequences(ARGS.len(), l, |ai| {
                        if wrong {
                            // arity mismatch: a thin slice is enough (first digit varies fastest is not needed)
                            count += 1;
                            if count > 30 {
                                return;
                            }
                        }
                        let case = CallCase { ret: *ret, ps: ps.clone(), args: ai.iter().map(|k| ARGS[*k].clone()).collect() };
                        if !ctx.take(|| call_case_json(&case)) {
                            return;
                        }
                        let (resolved, vs) = call_check(&case, c27, &decl);
                        if resolved {
                            ctx.nontrivial(&call_case_json(&case).to_string());
                        }
                        ctx.outcome(if resolved { "call:resolves" } else { "call:rejected" });
                        for (clause, detail) in vs {
                            // fingerprint by clause + the slot kinds involved
                            let fp = format!("{id}:{clause}:ret={:?}:params={:?}", case.ret.map(tyname), case.ps.iter().map(pt_text).collect::<Vec<_>>());
                            ctx.report(viol(&clause, fp, call_case_json(&case), detail));
                        }
                    });
                }
            });
        }
    }
}

pub static C27: PropDef = PropDef {
    id: "C27",
    level: "exploration",
    engine: "sweep",
    rule: "every executable instruction form over regions {a,b,c}: each classical operator x destination x source (reference / literal), comparisons, LOAD/STORE, EXCHANGE/CONVERT, jumps, MEASURE, CAPTURE/RAW-CAPTURE/PULSE/gates/DELAY/SET-*/SHIFT-* with expressions containing 0-2 references; plus the definitions DEFCAL (with and without a head parameter reading memory) / DEFCIRCUIT / DEFCAL MEASURE (with and without target) x every body of 1-3 instructions from an 11-item menu in which each access kind occurs alone (capture-only, read-only, write-only, none): accesses = head parameter reads + union over the body; plus every CALL of arity <= 2 against generated extern signatures (types x mut x scalar/vector) x 15 argument forms built through Call::try_new. non-trivial = instruction that accesses memory / call that resolves",
    assumptions: &["reference access table mc/src/refm.rs ref_mem written from the property statement; for CALL whether the return slot is also read is left open (accepted either way)"],
    run: |ctx| {
        let cases = c27_cases(ctx.tier);
        ctx.bound("instruction_cases", json!(cases.len()));
        for t in &cases {
            if !ctx.take(|| json!({"instruction": t})) {
                continue;
            }
            match c27_check_text(t) {
                None => ctx.outcome("instruction:skipped(parse or outside statement)"),
                Some(vs) => {
                    let i = Instruction::from_str(t).unwrap();
                    let m = ref_mem(&i).unwrap();
                    if !(m.r.is_empty() && m.w.is_empty() && m.c.is_empty()) {
                        ctx.nontrivial(t);
                    }
                    ctx.outcome(&format!("instruction:{}", kind_of(&i)));
                    for (clause, detail) in vs {
                        ctx.report(viol(&clause, format!("C27:{clause}:{}", kind_of(&i)), json!({"instruction": t}), format!("`{t}`: {detail}")));
                    }
                }
            }
        }
        // definitions: DEFCAL / DEFCIRCUIT / DEFCAL MEASURE with every body of 1-3 instructions
        for head in C27_DEFS {
            for len in 1..=3 {
                sequences(C27_BODY.len(), len, |s| {
                    let body: Vec<&str> = s.iter().map(|k| C27_BODY[*k]).collect();
                    if !ctx.take(|| json!({"definition": head, "body": body})) {
                        return;
                    }
                    match c27_check_def(head, &body) {
                        None => ctx.outcome("definition:skipped(parse)"),
                        Some(vs) => {
                            ctx.nontrivial(&(head, s));
                            ctx.outcome("definition:checked");
                            for (clause, detail) in vs {
                                let fails = |x: &[usize]| !x.is_empty() && c27_check_def(head, &x.iter().map(|k| C27_BODY[*k]).collect::<Vec<_>>()).map(|v| v.iter().any(|(c, _)| *c == clause)).unwrap_or(false);
                                let small = shrink_idx(s.to_vec(), &fails);
                                let sb: Vec<&str> = small.iter().map(|k| C27_BODY[*k]).collect();
                                ctx.report(viol(&clause, format!("C27:{clause}:{head} {}", sb.join("; ")), json!({"definition": head, "body": sb}), format!("`{head}` with body {:?}: {detail}", body)));
                            }
                        }
                    }
                });
            }
        }
        enumerate_calls(ctx, "C27", true);
    },
    replay: |c| {
        if let Some(head) = c["definition"].as_str() {
            let body = strs(&c["body"]);
            let b: Vec<&str> = body.iter().map(|x| x.as_str()).collect();
            c27_check_def(head, &b).unwrap_or_default().into_iter().map(|(cl, d)| viol(&cl, format!("C27:{cl}:{head} {}", b.join("; ")), c.clone(), d)).collect()
        } else if let Some(t) = c["instruction"].as_str() {
            let Ok(i) = Instruction::from_str(t) else { return vec![] };
            c27_check_text(t).unwrap_or_default().into_iter().map(|(cl, d)| viol(&cl, format!("C27:{cl}:{}", kind_of(&i)), c.clone(), d)).collect()
        } else if let Some(case) = parse_call_case(c) {
            let decl = Program::from_str(DECL).unwrap();
            call_check(&case, true, &decl).1.into_iter().map(|(cl, d)| viol(&cl, format!("C27:{cl}:replay"), c.clone(), d)).collect()
        } else {
            vec![]
        }
    },
    caps: (50, 3000),
};

// ------------------------------------------------------------------------------------------ C31

fn sig_roundtrip(ret: Option<ScalarType>, ps: &[PT], names: &[&str]) -> Vec<(String, String)> {
    let sig = build_sig(ret, ps, names);
    let r = catch(|| {
        let t = sig.to_quil().map_err(|e| format!("to_quil: {e:?}"))?;
        let back = ExternSignature::from_str(&t).map_err(|e| format!("`{t}` does not parse: {e:?}"))?;
        if back != sig {
            return Err(format!("`{t}` parses to a different signature `{}`", back.to_quil_or_debug()));
        }
        // PRAGMA EXTERN route
        let mut p = Program::new();
        p.add_instruction(Instruction::Pragma(Pragma::new("EXTERN".into(), vec![PragmaArgument::Identifier("f".into())], Some(t.clone()))));
        let map = p.try_extern_signature_map_from_pragma_map().map_err(|e| format!("pragma route fails for `{t}`: {:?}", e.1))?;
        let got = map.iter().find(|(k, _)| k.as_str() == "f").map(|(_, v)| v.clone());
        if got.as_ref() != Some(&sig) {
            return Err(format!("pragma route gives a different signature for `{t}`"));
        }
        // and through program text
        let text = p.to_quil().map_err(|e| format!("{e:?}"))?;
        let p2 = Program::from_str(&text).map_err(|e| format!("program text `{text}` does not parse: {e:?}"))?;
        let map2 = p2.try_extern_signature_map_from_pragma_map().map_err(|e| format!("{:?}", e.1))?;
        if map2.iter().find(|(k, _)| k.as_str() == "f").map(|(_, v)| v.clone()).as_ref() != Some(&sig) {
            return Err(format!("signature changed through program text `{text}`"));
        }
        Ok(())
    });
    match r {
        Err(p) => vec![("panic".into(), p)],
        Ok(Err(e)) => vec![("signature-roundtrip".into(), e)],
        Ok(Ok(())) => vec![],
    }
}

pub static C31: PropDef = PropDef {
    id: "C31",
    level: "exploration",
    engine: "sweep",
    rule: "every extern signature with optional return in {INTEGER, REAL} (roundtrip: all 4 scalar types) and <= 2 (roundtrip: <= 3) parameters over {scalar, T[], T[2], T[1], T[0] (thorough)} x {mut, -} x 3-4 element types x parameter names {p, q2, Rr, aB-c, _x1}; signature -> text -> signature, PRAGMA EXTERN route, program-text route; every call with arity -1/0/+1 and 15 argument forms over regions k:INTEGER x:REAL v:INTEGER[2] w:INTEGER[3] bb:BIT[2] oo:OCTET[2] and an undeclared one, resolved by the real code vs the slot-fitting rules. non-trivial = call that resolves / signature with parameters",
    assumptions: &["slot-fitting rules transcribed from the property statement (a bare region name in a scalar slot counts as a reference to its first cell)"],
    run: |ctx| {
        // signature roundtrips
        let pts = param_types(Tier::Thorough);
        let rets = [None, Some(ScalarType::Bit), Some(ScalarType::Integer), Some(ScalarType::Octet), Some(ScalarType::Real)];
        let names_sets: &[&[&str]] = &[&["p", "q2", "Rr"], &["aB-c", "_x1", "p"]];
        let max_ar = ctx.tier.pick(2, 3);
        for ret in rets {
            for arity in 0..=max_ar {
                if ret.is_none() && arity == 0 {
                    continue;
                }
                sequences(pts.len(), arity, |pi| {
                    let ps: Vec<PT> = pi.iter().map(|k| pts[*k].clone()).collect();
                    for names in names_sets {
                        if arity == 0 && names[0] != "p" {
                            continue;
                        }
                        if !ctx.take(|| json!({"signature": {"ret": ret.map(tyname), "params": ps.iter().map(pt_text).collect::<Vec<_>>(), "names": names}})) {
                            continue;
                        }
                        if arity > 0 {
                            ctx.nontrivial(&(ret.map(tyname), pi, names[0]));
                        }
                        ctx.outcome("signature");
                        for (clause, detail) in sig_roundtrip(ret, &ps, names) {
                            let fp = format!("C31:{clause}:{}", ps.iter().map(pt_text).collect::<Vec<_>>().join(","));
                            ctx.report(viol(&clause, fp, json!({"signature": {"ret": ret.map(tyname), "params": ps.iter().map(pt_text).collect::<Vec<_>>(), "names": names}}), detail));
                        }
                    }
                });
            }
        }
        enumerate_calls(ctx, "C31", false);
    },
    replay: |c| {
        if c.get("signature").is_some() {
            let s = &c["signature"];
            let Some(case) = parse_call_case(&json!({"ret": s["ret"], "params": s["params"], "args": []})) else { return vec![] };
            let names = strs(&s["names"]);
            let names: Vec<&str> = names.iter().map(|x| x.as_str()).collect();
            sig_roundtrip(case.ret, &case.ps, &names).into_iter().map(|(cl, d)| viol(&cl, format!("C31:{cl}:replay"), c.clone(), d)).collect()
        } else if let Some(case) = parse_call_case(c) {
            let decl = Program::from_str(DECL).unwrap();
            call_check(&case, false, &decl).1.into_iter().map(|(cl, d)| viol(&cl, format!("C31:{cl}:replay"), c.clone(), d)).collect()
        } else {
            vec![]
        }
    },
    caps: (50, 3000),
};

#[allow(dead_code)]
fn _unused(_: BTreeSet<u8>) {}
