//! E3 — explicit-state search (stateright) over histories of real `Program` operations.
//! C08 (deterministic serialization, definition order), C09 (instruction views agree),
//! C10 (used-qubit cache and equality are content-determined), C11 (concatenation; pair sweep).
//!
//! The state of the transition system is a live `quil_rs::Program` (plus the reference model of
//! C08/C09 and the history that first reached it); transitions call the real methods.  State
//! matching is on a 128-bit hash of a canonical form (listing with the frame set sorted, sorted
//! used-qubit set, reference listing, depth).  Oracles are evaluated in *every* reachable state
//! from inside an always-true stateright property, so the search never stops at a first discovery.
use crate::engine::*;
use crate::util::*;
use quil_rs::instruction::*;
use quil_rs::quil::Quil;
use quil_rs::Program;
use serde_json::{json, Value};
use stateright::{Checker, Model, Property};
use std::collections::{BTreeMap, BTreeSet, HashSet};
use std::hash::{Hash, Hasher};
use std::str::FromStr;
use std::sync::{Arc, Mutex};

// ---------------------------------------------------------------------------------------------
// reference model: per kind an ordered list with replace-in-place by key; a body list

pub fn kind_key(i: &Instruction) -> Option<(&'static str, String)> {
    Some(match i {
        Instruction::Declaration(d) => ("decl", d.name.clone()),
        Instruction::FrameDefinition(f) => ("frame", f.identifier.to_quil_or_debug()),
        Instruction::WaveformDefinition(w) => ("wave", w.name.clone()),
        Instruction::CalibrationDefinition(c) => ("cal", c.identifier.to_quil_or_debug() + &format!("{:?}", c.identifier.modifiers)),
        Instruction::MeasureCalibrationDefinition(c) => ("mcal", c.identifier.to_quil_or_debug()),
        Instruction::GateDefinition(g) => ("gate", g.name.clone()),
        Instruction::CircuitDefinition(c) => ("circ", c.name.clone()),
        Instruction::Pragma(p) if p.name == "EXTERN" => (
            "extern",
            match p.arguments.first() {
                Some(PragmaArgument::Identifier(n)) => n.clone(),
                _ => "<none>".into(),
            },
        ),
        _ => return None,
    })
}

#[derive(Default, Clone, Debug)]
pub struct Ref {
    pub kinds: BTreeMap<&'static str, Vec<(String, Instruction)>>,
    pub body: Vec<Instruction>,
}
impl Ref {
    pub fn add(&mut self, i: &Instruction) {
        match kind_key(i) {
            Some((k, key)) => {
                let v = self.kinds.entry(k).or_default();
                if let Some(e) = v.iter_mut().find(|(kk, _)| *kk == key) {
                    e.1 = i.clone();
                } else {
                    v.push((key, i.clone()));
                }
            }
            None => self.body.push(i.clone()),
        }
    }
    pub fn concat(&mut self, o: &Ref) {
        for v in o.kinds.values() {
            for (_, i) in v {
                self.add(i);
            }
        }
        self.body.extend(o.body.iter().cloned());
    }
    pub fn of(instrs: &[Instruction]) -> Ref {
        let mut r = Ref::default();
        for i in instrs {
            r.add(i);
        }
        r
    }
}

fn split(l: &[Instruction]) -> (BTreeMap<&'static str, Vec<Instruction>>, Vec<Instruction>) {
    let mut m: BTreeMap<&'static str, Vec<Instruction>> = BTreeMap::new();
    let mut body = vec![];
    for i in l {
        match kind_key(i) {
            Some((k, _)) => m.entry(k).or_default().push(i.clone()),
            None => body.push(i.clone()),
        }
    }
    (m, body)
}
fn sorted_dbg(v: &[Instruction]) -> Vec<String> {
    let mut s: Vec<String> = v.iter().map(|i| format!("{i:?}")).collect();
    s.sort();
    s
}
/// listing with the frame definitions put in canonical (sorted) order at their first position
fn canon_listing(l: &[Instruction]) -> Vec<String> {
    let mut frames: Vec<String> = l.iter().filter(|i| matches!(i, Instruction::FrameDefinition(_))).map(|i| format!("{i:?}")).collect();
    frames.sort();
    let mut out = vec![format!("frames{frames:?}")];
    out.extend(l.iter().filter(|i| !matches!(i, Instruction::FrameDefinition(_))).map(|i| format!("{i:?}")));
    out
}

// ---------------------------------------------------------------------------------------------
// oracles

/// C08: per-kind order = first insertion, value = last; same history built twice serializes equally
fn c08_oracle(p: &Program, r: &Ref, rebuild: &dyn Fn() -> Program) -> Vec<(String, String)> {
    let mut out = vec![];
    let li = p.to_instructions();
    let (m1, _) = split(&li);
    for (k, v) in &r.kinds {
        let want: Vec<Instruction> = v.iter().map(|(_, i)| i.clone()).collect();
        let got = m1.get(k).cloned().unwrap_or_default();
        if sorted_dbg(&want) == sorted_dbg(&got) && got != want {
            out.push((
                format!("order:{k}"),
                format!("{k} definitions are listed as {:?}, first-insertion order is {:?}", got.iter().map(|i| kind_key(i).unwrap().1).collect::<Vec<_>>(), want.iter().map(|i| kind_key(i).unwrap().1).collect::<Vec<_>>()),
            ));
        }
    }
    let a = p.to_quil();
    let b = rebuild().to_quil();
    match (a, b) {
        (Ok(a), Ok(b)) => {
            if a != b {
                out.push(("rebuild-differs".into(), "building the same history twice gives different text".into()));
            }
            // text is stable under repeated serialization of the same object too
            if p.to_quil().ok().as_deref() != Some(&a) {
                out.push(("unstable".into(), "serializing the same program twice gives different text".into()));
            }
        }
        (Err(_), Err(_)) => {}
        _ => out.push(("rebuild-differs".into(), "serialization succeeds for one build of the history only".into())),
    }
    out
}

/// C09: views agree, rebuild equal, body order, last value per key
fn c09_oracle(p: &Program, r: &Ref) -> Vec<(String, String)> {
    let mut out = vec![];
    let li = p.to_instructions();
    let li2 = p.clone().into_instructions();
    if canon_listing(&li) != canon_listing(&li2) {
        let pos = li.iter().zip(li2.iter()).position(|(a, b)| a != b).unwrap_or(li.len().min(li2.len()));
        let what = li.get(pos).map(|i| kind_key(i).map(|k| k.0).unwrap_or("body")).unwrap_or("length");
        out.push((format!("to-vs-into:{what}"), format!("to_instructions and into_instructions differ from position {pos}: `{}` vs `{}`", li.get(pos).map(q).unwrap_or_default(), li2.get(pos).map(q).unwrap_or_default())));
    }
    let (m1, b1) = split(&li);
    if b1 != r.body {
        out.push(("body-order".into(), format!("body is {:?}, insertion order is {:?}", b1.iter().map(q).collect::<Vec<_>>(), r.body.iter().map(q).collect::<Vec<_>>())));
    }
    for (k, v) in &r.kinds {
        let want: Vec<Instruction> = v.iter().map(|(_, i)| i.clone()).collect();
        let got = m1.get(k).cloned().unwrap_or_default();
        if sorted_dbg(&want) != sorted_dbg(&got) {
            out.push((format!("content:{k}"), format!("{k} definitions held: {:?}; last value per key: {:?}", got.iter().map(q).collect::<Vec<_>>(), want.iter().map(q).collect::<Vec<_>>())));
        }
    }
    for k in m1.keys() {
        if !r.kinds.contains_key(k) {
            out.push((format!("content:{k}"), format!("{k} definitions present that were never added")));
        }
    }
    let qp = Program::from_instructions(li.clone());
    if &qp != p {
        out.push(("rebuild-not-equal".into(), "from_instructions(to_instructions()) != original".into()));
    }
    let nframes = li.iter().filter(|i| matches!(i, Instruction::FrameDefinition(_))).count();
    if nframes <= 1 && qp.to_quil().ok() != p.to_quil().ok() {
        out.push(("rebuild-serialization".into(), "from_instructions(to_instructions()) serializes differently".into()));
    }
    out
}

fn all_qubits(i: &Instruction, out: &mut BTreeSet<String>) {
    // independent syntactic walk over every qubit-bearing position
    let mut push = |q: &Qubit| {
        out.insert(format!("{q:?}"));
    };
    match i {
        Instruction::Gate(g) => g.qubits.iter().for_each(&mut push),
        Instruction::Measurement(m) => push(&m.qubit),
        Instruction::Reset(r) => r.qubit.iter().for_each(&mut push),
        Instruction::Delay(d) => d.qubits.iter().for_each(&mut push),
        Instruction::Fence(f) => f.qubits.iter().for_each(&mut push),
        Instruction::Pulse(p) => p.frame.qubits.iter().for_each(&mut push),
        Instruction::Capture(p) => p.frame.qubits.iter().for_each(&mut push),
        Instruction::RawCapture(p) => p.frame.qubits.iter().for_each(&mut push),
        Instruction::SetPhase(p) => p.frame.qubits.iter().for_each(&mut push),
        Instruction::SetScale(p) => p.frame.qubits.iter().for_each(&mut push),
        Instruction::SetFrequency(p) => p.frame.qubits.iter().for_each(&mut push),
        Instruction::ShiftPhase(p) => p.frame.qubits.iter().for_each(&mut push),
        Instruction::ShiftFrequency(p) => p.frame.qubits.iter().for_each(&mut push),
        Instruction::SwapPhases(s) => s.frame_1.qubits.iter().chain(s.frame_2.qubits.iter()).for_each(&mut push),
        Instruction::FrameDefinition(f) => f.identifier.qubits.iter().for_each(&mut push),
        Instruction::CalibrationDefinition(c) => {
            c.identifier.qubits.iter().for_each(&mut push);
            for x in &c.instructions {
                all_qubits(x, out);
            }
        }
        Instruction::MeasureCalibrationDefinition(c) => {
            out.insert(format!("{:?}", c.identifier.qubit));
            for x in &c.instructions {
                all_qubits(x, out);
            }
        }
        Instruction::CircuitDefinition(c) => {
            for x in &c.instructions {
                all_qubits(x, out);
            }
        }
        _ => {}
    }
}

/// C10: differential — the program against its own rebuild
fn c10_oracle(p: &Program) -> Vec<(String, String)> {
    let mut out = vec![];
    let r = Program::from_instructions(p.to_instructions());
    let us = |x: &Program| -> BTreeSet<String> { x.get_used_qubits().iter().map(|q| format!("{q:?}")).collect() };
    let (a, b) = (us(p), us(&r));
    if a != b {
        out.push(("used-qubits-history-dependent".into(), format!("used qubits {a:?}, but a program rebuilt from the same listing has {b:?}")));
    } else if &r != p {
        out.push(("equality-history-dependent".into(), "program != program rebuilt from its own listing (used qubits equal)".into()));
    }
    // bounds on the value itself
    let mut body = BTreeSet::new();
    for i in p.body_instructions() {
        all_qubits(i, &mut body);
    }
    let mut all = BTreeSet::new();
    for i in p.to_instructions() {
        all_qubits(&i, &mut all);
    }
    if !body.is_subset(&a) {
        out.push(("used-qubits-miss-body-qubit".into(), format!("used qubits {a:?} lack a qubit of the body {body:?}")));
    }
    if !a.is_subset(&all) {
        out.push(("used-qubits-not-in-program".into(), format!("used qubits {a:?} contain a qubit that occurs nowhere in the program ({all:?})")));
    }
    out
}

// ---------------------------------------------------------------------------------------------
// the stateright model

#[derive(Clone, Debug, PartialEq, Eq, Hash)]
pub enum Act {
    Add(usize),
    Concat(usize),
    CloneNoBody,
    Expand,
    ExpandSeq,
    Simplify,
    Wrap2,
    Wrap0,
    Resolve,
    ResolveNone,
    FilterNoCal,
    ConcatSelf,
    Rebuild,
    Dagger,
}

#[derive(Clone, Debug)]
pub struct St {
    prog: Program,
    refm: Ref,
    key: u128,
    depth: usize,
    hist: Vec<Act>,
}
impl PartialEq for St {
    fn eq(&self, o: &Self) -> bool {
        self.key == o.key && self.depth == o.depth
    }
}
impl Eq for St {}
impl Hash for St {
    fn hash<H: Hasher>(&self, h: &mut H) {
        self.key.hash(h);
        self.depth.hash(h);
    }
}

fn canon_key(p: &Program, r: &Ref) -> (u128, u64) {
    let li = p.to_instructions();
    let listing = canon_listing(&li);
    let mut uq: Vec<String> = p.get_used_qubits().iter().map(|q| format!("{q:?}")).collect();
    uq.sort();
    let rl: Vec<String> = r.kinds.values().flat_map(|v| v.iter().map(|(k, i)| format!("{k}={i:?}"))).chain(r.body.iter().map(|i| format!("{i:?}"))).collect();
    let a = h64(&(&listing, &uq, &rl));
    let b = h64(&(&rl, &uq, &listing, 0x9e3779b97f4a7c15u64));
    (((a as u128) << 64) | b as u128, h64(&listing))
}

#[derive(Clone, Copy, PartialEq, Debug)]
pub enum Which {
    C08,
    C09,
    C10,
}

#[derive(Default)]
pub struct Rec {
    pub viols: Vec<(String, String, Vec<Act>, Option<Vec<Act>>)>,
    pub samples: Vec<Vec<Act>>,
    pub listing_to_uq: std::collections::HashMap<u64, (u64, Vec<Act>)>,
    pub nontrivial: HashSet<u128>,
    pub visited: u64,
    pub by_last: BTreeMap<String, u64>,
}

pub struct M {
    pub which: Which,
    pub menu: Vec<Instruction>,
    pub concat: Vec<(Program, Ref)>,
    pub ops: Vec<Act>,
    pub max_depth: usize,
    pub rec: Arc<Mutex<Rec>>,
}

impl M {
    fn apply(&self, p: &Program, r: &Ref, a: &Act) -> Option<(Program, Ref)> {
        let res = catch(|| match a {
            Act::Add(k) => {
                let mut q2 = p.clone();
                q2.add_instruction(self.menu[*k].clone());
                let mut r2 = r.clone();
                r2.add(&self.menu[*k]);
                Some((q2, r2))
            }
            Act::Concat(k) => {
                let mut r2 = r.clone();
                r2.concat(&self.concat[*k].1);
                Some((p.clone() + self.concat[*k].0.clone(), r2))
            }
            Act::ConcatSelf => {
                let mut r2 = r.clone();
                r2.concat(r);
                Some((p.clone() + p.clone(), r2))
            }
            Act::CloneNoBody => Some((p.clone_without_body_instructions(), Ref::default())),
            Act::Expand => p.expand_calibrations().ok().map(|x| (x, Ref::default())),
            Act::ExpandSeq => p.clone().expand_defgate_sequences(|_| true).ok().map(|x| (x, Ref::default())),
            Act::Simplify => p.simplify(&DefaultHandler).ok().map(|x| (x, Ref::default())),
            Act::Wrap2 => Some((p.wrap_in_loop(MemoryReference::new("c".into(), 0), Target::Fixed("s".into()), 2), Ref::default())),
            Act::Wrap0 => Some((p.wrap_in_loop(MemoryReference::new("c".into(), 0), Target::Fixed("s".into()), 0), Ref::default())),
            Act::Resolve => {
                let mut q2 = p.clone();
                q2.resolve_placeholders();
                Some((q2, Ref::default()))
            }
            Act::ResolveNone => {
                // custom resolvers that decline every placeholder: nothing may change, the placeholders stay used
                let mut q2 = p.clone();
                q2.resolve_placeholders_with_custom_resolvers(Box::new(|_| None), Box::new(|_| None));
                Some((q2, Ref::default()))
            }
            Act::FilterNoCal => Some((p.filter_instructions(|i| !matches!(i, Instruction::CalibrationDefinition(_))), Ref::default())),
            Act::Rebuild => Some((Program::from_instructions(p.to_instructions()), Ref::default())),
            Act::Dagger => p.dagger().ok().map(|x| (x, Ref::default())),
        });
        match res {
            Ok(x) => x,
            Err(pan) => {
                self.rec.lock().unwrap().viols.push(("panic".into(), format!("operation {a:?} panicked: {pan}"), vec![a.clone()], None));
                None
            }
        }
    }
    pub fn replay_hist(&self, hist: &[Act]) -> Option<(Program, Ref)> {
        let mut p = Program::new();
        let mut r = Ref::default();
        for a in hist {
            let (p2, r2) = self.apply(&p, &r, a)?;
            p = p2;
            r = r2;
        }
        Some((p, r))
    }
    fn check_state(&self, s: &St) -> Vec<(String, String)> {
        let r = catch(|| match self.which {
            Which::C08 => c08_oracle(&s.prog, &s.refm, &|| self.replay_hist(&s.hist).map(|x| x.0).unwrap_or_default()),
            Which::C09 => c09_oracle(&s.prog, &s.refm),
            Which::C10 => c10_oracle(&s.prog),
        });
        match r {
            Ok(v) => v,
            Err(p) => vec![("panic".into(), p)],
        }
    }
}

impl Model for M {
    type State = St;
    type Action = Act;
    fn init_states(&self) -> Vec<St> {
        let p = Program::new();
        let r = Ref::default();
        vec![St { key: canon_key(&p, &r).0, prog: p, refm: r, depth: 0, hist: vec![] }]
    }
    fn actions(&self, s: &St, out: &mut Vec<Act>) {
        if s.depth >= self.max_depth {
            return;
        }
        for k in 0..self.menu.len() {
            out.push(Act::Add(k));
        }
        for k in 0..self.concat.len() {
            out.push(Act::Concat(k));
        }
        out.extend(self.ops.iter().cloned());
    }
    fn next_state(&self, s: &St, a: Act) -> Option<St> {
        let (np, nr) = self.apply(&s.prog, &s.refm, &a)?;
        let mut hist = s.hist.clone();
        hist.push(a);
        Some(St { key: canon_key(&np, &nr).0, prog: np, refm: nr, depth: s.depth + 1, hist })
    }
    fn properties(&self) -> Vec<Property<Self>> {
        vec![Property::always("oracles evaluated in every state (always true; violations are recorded)", |m: &M, s: &St| {
            let vs = m.check_state(s);
            let mut rec = m.rec.lock().unwrap();
            rec.visited += 1;
            let v = rec.visited;
            if v <= 3 || (v & (v - 1)) == 0 || (v % 1000 == 0 && rec.samples.len() < 400) {
                rec.samples.push(s.hist.clone());
            }
            if s.depth >= 2 {
                rec.nontrivial.insert(s.key);
            }
            // outcome class: a function of the state alone (not of the history that happened to reach it
            // first, which depends on the order in which the parallel search visits states)
            let li = s.prog.to_instructions();
            let kinds: BTreeSet<&'static str> = li.iter().filter_map(|i| kind_key(i).map(|k| k.0)).collect();
            let body = li.iter().filter(|i| kind_key(i).is_none()).count();
            let last = format!("depth{}:definition-kinds{}:body{}", s.depth, kinds.len(), body.min(3));
            *rec.by_last.entry(last).or_default() += 1;
            if m.which == Which::C10 {
                // two states with identical listing but different used-qubit sets
                let (_, lh) = canon_key(&s.prog, &Ref::default());
                let mut uq: Vec<String> = s.prog.get_used_qubits().iter().map(|q| format!("{q:?}")).collect();
                uq.sort();
                let uh = h64(&uq);
                match rec.listing_to_uq.get(&lh) {
                    Some((prev, hist)) if *prev != uh => {
                        let other = hist.clone();
                        rec.viols.push(("same-listing-different-used-qubits".into(), format!("this history and {other:?} give the same instruction listing but different used-qubit sets"), s.hist.clone(), Some(other)));
                    }
                    Some(_) => {}
                    None => {
                        rec.listing_to_uq.insert(lh, (uh, s.hist.clone()));
                    }
                }
            }
            for (c, d) in vs {
                rec.viols.push((c, d, s.hist.clone(), None));
            }
            true
        })]
    }
}

// ---------------------------------------------------------------------------------------------
// menus

const MENU_DEFS: &[&str] = &[
    "DECLARE a BIT",
    "DECLARE b REAL SHARING a",
    "DECLARE a REAL[2]",
    "DEFFRAME 0 \"f\":\n    X: 1\n    Y: 1",
    "DEFFRAME 1 \"f\":\n    X: 1\n    Z: \"s\"",
    "DEFFRAME 0 \"f\":\n    X: 2",
    "DEFFRAME 0 1 \"g\":\n    X: 1",
    "DEFWAVEFORM w:\n    1",
    "DEFWAVEFORM v:\n    1",
    "DEFWAVEFORM w:\n    2",
    "DEFCAL X 0:\n    NOP",
    "DEFCAL X q:\n    NOP",
    "DEFCAL X 0:\n    WAIT",
    "DEFCAL MEASURE 0:\n    NOP",
    "DEFCAL MEASURE q d:\n    NOP",
    "DEFCAL MEASURE 0:\n    WAIT",
    "DEFGATE G AS PERMUTATION:\n    0, 1",
    "DEFGATE H2 AS PERMUTATION:\n    0, 1",
    "DEFGATE G AS PERMUTATION:\n    1, 0",
    "DEFCIRCUIT C:\n    X 0",
    "DEFCIRCUIT D:\n    X 0",
    "DEFCIRCUIT C:\n    Y 0",
    "PRAGMA EXTERN f \"INTEGER\"",
    "PRAGMA EXTERN g \"INTEGER\"",
    "PRAGMA EXTERN f \"REAL\"",
    "X 0",
    "PRAGMA p",
    "Y 1",
];
const CONCAT_PROGS: &[&str] = &[
    "DECLARE b BIT\nDECLARE c BIT\nDEFFRAME 1 \"f\":\n    X: 3\nDEFFRAME 2 \"f\":\n    X: 1\nZ 2\n",
    "DEFCAL X q:\n    HALT\nDEFCAL X 1:\n    NOP\nDEFWAVEFORM v:\n    3\nDEFWAVEFORM u:\n    1\nPRAGMA EXTERN g \"REAL\"\nPRAGMA EXTERN h \"REAL\"\n",
    "DEFGATE H2 AS PERMUTATION:\n    1, 0\nDEFGATE K AS PERMUTATION:\n    0, 1\nDEFCIRCUIT D:\n    Z 0\nDEFCIRCUIT E:\n    Z 0\nDEFCAL MEASURE q d:\n    WAIT\nDEFCAL MEASURE 1:\n    NOP\nH 0\n",
];
const MENU_C10: &[&str] = &[
    "DEFCAL X 0:\n    Z 0",
    "DEFCAL Y q:\n    Z q",
    "DEFCAL MEASURE 1:\n    NOP",
    "X 1",
    "Y 2",
    "MEASURE 1",
    "RESET",
    "SET-PHASE 3 \"f\" 1",
    "DEFFRAME 3 \"f\":\n    A: 1",
    "DEFGATE S a AS SEQUENCE:\n    H a",
    "S 4",
    "PULSE 5 \"f\" w",
    "DEFCIRCUIT C:\n    X 6",
    "DEFGATE S2 a b AS SEQUENCE:\n    H a",
    "S2 1 7",
];

fn parse_menu(m: &[&str]) -> Vec<Instruction> {
    m.iter().map(|s| Program::from_str(s).unwrap_or_else(|e| panic!("menu {s}: {e:?}")).to_instructions()[0].clone()).collect()
}
fn concat_progs() -> Vec<(Program, Ref)> {
    CONCAT_PROGS
        .iter()
        .map(|t| {
            let p = Program::from_str(t).unwrap();
            let r = Ref::of(&p.to_instructions());
            (p, r)
        })
        .collect()
}
fn c10_menu() -> Vec<Instruction> {
    let mut m = parse_menu(MENU_C10);
    // a gate on a qubit placeholder (cannot be written as text)
    m.push(Instruction::Gate(Gate::new("X", vec![], vec![Qubit::Placeholder(QubitPlaceholder::default())], vec![]).unwrap()));
    m
}

fn act_json(a: &Act, menu: &[Instruction]) -> Value {
    match a {
        Act::Add(k) => json!({"add": menu[*k].to_quil_or_debug()}),
        Act::Concat(k) => json!({"concat": CONCAT_PROGS[*k]}),
        o => json!(format!("{o:?}")),
    }
}

fn run_model(ctx: &mut Ctx, id: &str, which: Which, name: &str, menu: Vec<Instruction>, concat: Vec<(Program, Ref)>, ops: Vec<Act>, depth: usize, dfs_too: bool) {
    let rec = Arc::new(Mutex::new(Rec::default()));
    let (concat2, ops2) = (concat.clone(), ops.clone());
    let m = M { which, menu: menu.clone(), concat, ops, max_depth: depth, rec: rec.clone() };
    let nactions = m.menu.len() + m.concat.len() + m.ops.len();
    let threads = std::thread::available_parallelism().map(|n| n.get()).unwrap_or(8).min(16);
    let cap = std::time::Duration::from_secs(ctx.tier.pick(150, 3600));
    let checker = m.checker().threads(threads).timeout(cap).spawn_dfs().join();
    let unique = checker.unique_state_count() as u64;
    let generated = checker.state_count() as u64;
    let done = checker.is_done();
    let maxd = checker.max_depth();
    drop(checker);
    let mut bfs_unique = None;
    if dfs_too && done && unique < 250_000 {
        // determinism self-check: a second, breadth-first exploration must find the same number of states
        let rec2 = Arc::new(Mutex::new(Rec::default()));
        let m2 = M { which, menu: menu.clone(), concat: concat2, ops: ops2, max_depth: depth, rec: rec2 };
        let c2 = m2.checker().threads(threads).timeout(cap).spawn_bfs().join();
        let u2 = c2.unique_state_count() as u64;
        bfs_unique = Some(u2 == unique);
        if c2.is_done() && u2 != unique {
            ctx.report(viol("nondeterministic-exploration", format!("{id}:nondeterministic-exploration:{name}"), json!({"model": name}), format!("DFS found {unique} unique states, BFS found {u2}: state keys are not a function of the history")));
        }
    }
    let r = std::mem::take(&mut *rec.lock().unwrap());
    ctx.evals += unique;
    ctx.states += unique;
    ctx.transitions += generated;
    ctx.traces += unique; // every state is a real Program reached by real method calls
    for k in &r.nontrivial {
        ctx.nontrivial(&(name, k));
    }
    ctx.outcome(&format!("{name}:states"));
    *ctx.outcomes.get_mut(&format!("{name}:states")).unwrap() = unique;
    for (k, v) in &r.by_last {
        *ctx.outcomes.entry(format!("{name}:{k}")).or_default() += *v;
    }
    ctx.bound(&format!("{name}"), json!({"actions": nactions, "depth": depth, "unique_states": unique, "transitions": generated, "max_depth_reached": maxd, "completed": done, "dfs_bfs_agree": bfs_unique}));
    if !done {
        ctx.capped = true;
    }
    for h in r.samples.iter().take(6) {
        ctx.sample(json!({"model": name, "history": h.iter().map(|a| act_json(a, &menu)).collect::<Vec<_>>()}));
    }
    // shrink and fingerprint violations
    let mm = M { which, menu: menu.clone(), concat: concat_progs(), ops: vec![], max_depth: depth, rec: Arc::new(Mutex::new(Rec::default())) };
    if std::env::var("VERIF_DEBUG").is_ok() {
        eprintln!("{name}: unique={unique} generated={generated} viols={} search_done", r.viols.len());
    }
    let mut shrunk = 0;
    let t_shrink = std::time::Instant::now();
    for (clause, detail, hist, other) in r.viols {
        let acts_of = |h: &[Act]| h.iter().map(|a| format!("{a:?}")).collect::<Vec<_>>();
        if let Some(o) = other {
            ctx.report(viol(&clause, format!("{id}:{clause}"), json!({"model": name, "acts": acts_of(&hist), "other_acts": acts_of(&o), "history": hist.iter().map(|a| act_json(a, &menu)).collect::<Vec<_>>()}), detail));
            continue;
        }
        let do_shrink = shrunk < 60 && clause != "panic" && t_shrink.elapsed().as_secs() < 10;
        let small = if do_shrink {
            shrunk += 1;
            let fails = |h: &[Act]| -> bool {
                match mm.replay_hist(h) {
                    None => false,
                    Some((p, rf)) => {
                        let s = St { key: 0, prog: p, refm: rf, depth: h.len(), hist: h.to_vec() };
                        mm.check_state(&s).iter().any(|(c, _)| *c == clause)
                    }
                }
            };
            shrink_list(hist.clone(), &fails)
        } else {
            hist.clone()
        };
        let hj: Vec<Value> = small.iter().map(|a| act_json(a, &menu)).collect();
        let fp_tail: Vec<String> = small
            .iter()
            .map(|a| match a {
                Act::Add(k) => kind_key(&menu[*k]).map(|(kind, key)| format!("add-{kind}({key})")).unwrap_or_else(|| format!("add({})", anon(&menu[*k].to_quil_or_debug()))),
                Act::Concat(k) => format!("concat{k}"),
                o => format!("{o:?}"),
            })
            .collect();
        let fp = if do_shrink { format!("{id}:{clause}:{}", fp_tail.join(",")) } else { format!("{id}:{clause}:(unshrunk)") };
        ctx.report(viol(&clause, fp, json!({"model": name, "history": hj, "acts": acts_of(&small)}), format!("after history {}: {detail}", Value::Array(hist.iter().map(|a| act_json(a, &menu)).collect::<Vec<_>>()))));
    }
}

/// placeholder identities are addresses; keep them out of fingerprints
fn anon(s: &str) -> String {
    let mut out = String::new();
    let b: Vec<char> = s.chars().collect();
    let mut i = 0;
    while i < b.len() {
        if b[i] == '0' && i + 1 < b.len() && b[i + 1] == 'x' {
            out.push_str("0x..");
            i += 2;
            while i < b.len() && b[i].is_ascii_hexdigit() {
                i += 1;
            }
        } else {
            out.push(b[i]);
            i += 1;
        }
    }
    out
}

fn per_kind_menus() -> Vec<(&'static str, Vec<usize>)> {
    vec![("decl", vec![0, 1, 2, 25]), ("frame", vec![3, 4, 5, 6, 25]), ("wave", vec![7, 8, 9, 25]), ("cal", vec![10, 11, 12, 25]), ("mcal", vec![13, 14, 15, 25]), ("gate", vec![16, 17, 18, 25]), ("circ", vec![19, 20, 21, 25]), ("extern", vec![22, 23, 24, 0, 25])]
}

fn run_c08_c09(ctx: &mut Ctx, id: &'static str, which: Which) {
    let full = parse_menu(MENU_DEFS);
    let d_full = ctx.tier.pick(4, 6);
    let thorough = ctx.tier == Tier::Thorough;
    run_model(ctx, id, which, "all-kinds", full.clone(), concat_progs(), vec![Act::ConcatSelf], d_full, thorough);
    let d_kind = ctx.tier.pick(5, 7);
    for (name, idx) in per_kind_menus() {
        let menu: Vec<Instruction> = idx.iter().map(|k| full[*k].clone()).collect();
        let nm: &'static str = Box::leak(format!("kind-{name}").into_boxed_str());
        run_model(ctx, id, which, nm, menu, concat_progs(), vec![], d_kind, thorough);
    }
}

fn parse_act(s: &str) -> Option<Act> {
    let num = |p: &str| s.strip_prefix(p).and_then(|x| x.strip_suffix(')')).and_then(|x| x.parse::<usize>().ok());
    if let Some(k) = num("Add(") {
        return Some(Act::Add(k));
    }
    if let Some(k) = num("Concat(") {
        return Some(Act::Concat(k));
    }
    Some(match s {
        "CloneNoBody" => Act::CloneNoBody,
        "Expand" => Act::Expand,
        "ExpandSeq" => Act::ExpandSeq,
        "Simplify" => Act::Simplify,
        "Wrap2" => Act::Wrap2,
        "Wrap0" => Act::Wrap0,
        "Resolve" => Act::Resolve,
        "ResolveNone" => Act::ResolveNone,
        "FilterNoCal" => Act::FilterNoCal,
        "ConcatSelf" => Act::ConcatSelf,
        "Rebuild" => Act::Rebuild,
        "Dagger" => Act::Dagger,
        _ => return None,
    })
}

fn replay_hist_case(id: &str, which: Which, c: &Value) -> Vec<Viol> {
    let name = c["model"].as_str().unwrap_or("");
    let full = parse_menu(MENU_DEFS);
    let menu: Vec<Instruction> = if which == Which::C10 {
        c10_menu()
    } else if let Some(k) = name.strip_prefix("kind-") {
        per_kind_menus().into_iter().find(|(n, _)| *n == k).map(|(_, idx)| idx.iter().map(|i| full[*i].clone()).collect()).unwrap_or(full.clone())
    } else {
        full.clone()
    };
    let acts: Vec<Act> = strs(&c["acts"]).iter().filter_map(|s| parse_act(s)).collect();
    let m = M { which, menu, concat: concat_progs(), ops: vec![], max_depth: 99, rec: Arc::new(Mutex::new(Rec::default())) };
    let Some((p, r)) = m.replay_hist(&acts) else { return vec![] };
    if c.get("other_acts").is_some() {
        let other: Vec<Act> = strs(&c["other_acts"]).iter().filter_map(|s| parse_act(s)).collect();
        let Some((p2, _)) = m.replay_hist(&other) else { return vec![] };
        let us = |x: &Program| -> BTreeSet<String> { x.get_used_qubits().iter().map(|q| format!("{q:?}")).collect() };
        if canon_listing(&p.to_instructions()) == canon_listing(&p2.to_instructions()) && us(&p) != us(&p2) {
            return vec![viol("same-listing-different-used-qubits", format!("{id}:same-listing-different-used-qubits"), c.clone(), format!("equal listings, used qubits {:?} vs {:?}", us(&p), us(&p2)))];
        }
        return vec![];
    }
    let s = St { key: 0, prog: p, refm: r, depth: acts.len(), hist: acts };
    m.check_state(&s).into_iter().map(|(cl, d)| viol(&cl, format!("{id}:{cl}:replay"), c.clone(), d)).collect()
}

const ASSUME: &[&str] = &[
    "state matching: two states are merged only if listing (frame set sorted), used-qubit set, reference listing and depth all agree, so merged states have the same futures",
    "hash-seed nondeterminism cannot be enumerated; it is decided by the deterministic ordering specification (first-insertion order per kind) plus serialization in two separate processes",
];

pub static C08: PropDef = PropDef {
    id: "C08",
    level: "model_checking",
    engine: "hist",
    rule: "transition system over real Programs: add_instruction over a 28-instruction menu (a SHARING declaration before plain ones; frame redefinitions whose attribute key set shrinks) with two keys and a redefinition for each of the 8 definition kinds (declarations, frames, waveforms, calibrations, measure calibrations, gates, circuits, extern pragmas) plus body instructions, + with 3 fixed programs and with itself; depth <= 4 (thorough 6) over the full menu and depth <= 5 (7) over each per-kind menu; stateright DFS with state matching. Oracle in every state: per-kind listing order = first insertion, value = last; same history rebuilt serializes byte-identically; sampled states serialized in two separate processes. non-trivial = state at depth >= 2",
    assumptions: ASSUME,
    run: |ctx| {
        run_c08_c09(ctx, "C08", Which::C08);
        cross_process(ctx);
    },
    replay: |c| {
        if let Some(line) = c["cross_process"].as_str() {
            return cross_process_lines(&[line.to_string()]).map(|k| vec![viol("cross-process", "C08:cross-process", c.clone(), format!("history {k} serializes differently in separate processes"))]).unwrap_or_default();
        }
        replay_hist_case("C08", Which::C08, c)
    },
    caps: (55, 3000),
};

pub static C09: PropDef = PropDef {
    id: "C09",
    level: "model_checking",
    engine: "hist",
    rule: "same transition system as C08. Oracle in every state: to_instructions() == clone().into_instructions() (frame set as a multiset), from_instructions(listing) == program with identical serialization, body order = insertion order, each keyed kind holds exactly the last value per key (reference ordered-map model). non-trivial = state at depth >= 2",
    assumptions: ASSUME,
    run: |ctx| run_c08_c09(ctx, "C09", Which::C09),
    replay: |c| replay_hist_case("C09", Which::C09, c),
    caps: (55, 3000),
};

pub static C10: PropDef = PropDef {
    id: "C10",
    level: "model_checking",
    engine: "hist",
    rule: "transition system over real Programs: add_instruction over a 16-instruction menu (calibrations on fixed and variable qubits, measure calibration, gates, MEASURE, RESET, frame update, frame, sequence gate definition and use, pulse, circuit, a gate on a qubit placeholder) and the operations concat-with-self, clone_without_body_instructions, expand_calibrations, expand_defgate_sequences, simplify, wrap_in_loop(2 / 0), resolve_placeholders, resolve_placeholders_with_custom_resolvers declining every placeholder, filter_instructions, rebuild, dagger; depth <= 3 (thorough 5); stateright DFS with state matching. Oracle in every state (differential): used qubits and equality against from_instructions(to_instructions()); body qubits <= used <= all syntactic qubits; two states with equal listing have equal used-qubit sets. non-trivial = state at depth >= 2",
    assumptions: ASSUME,
    run: |ctx| {
        let d = ctx.tier.pick(3, 5);
        let ops = vec![Act::ConcatSelf, Act::CloneNoBody, Act::Expand, Act::ExpandSeq, Act::Simplify, Act::Wrap2, Act::Wrap0, Act::Resolve, Act::ResolveNone, Act::FilterNoCal, Act::Rebuild, Act::Dagger];
        let thorough = ctx.tier == Tier::Thorough;
        run_model(ctx, "C10", Which::C10, "operations", c10_menu(), vec![], ops, d, thorough);
    },
    replay: |c| replay_hist_case("C10", Which::C10, c),
    caps: (55, 3000),
};

// ---------------------------------------------------------------------------------------------
// C08 clause (iii): two separate processes serialize sampled histories identically

pub fn serialize_histories_cmd(path: &str) -> i32 {
    // prints one hash per history line of the file (each line: comma separated menu indices)
    let full = parse_menu(MENU_DEFS);
    let Ok(txt) = std::fs::read_to_string(path) else { return 2 };
    for line in txt.lines() {
        let mut p = Program::new();
        for k in line.split(',').filter_map(|x| x.trim().parse::<usize>().ok()) {
            p.add_instruction(full[k].clone());
        }
        println!("{:016x}", h64(&p.to_quil().unwrap_or_else(|e| format!("ERR {e:?}"))));
    }
    0
}

fn cross_process(ctx: &mut Ctx) {
    // histories with several frames / several definitions of each kind
    let n = MENU_DEFS.len();
    let mut lines: Vec<String> = vec![];
    let frames = [3usize, 4, 6];
    for a in 0..n {
        for b in 0..n {
            if (a * 31 + b * 7) % 9 == 0 {
                lines.push(format!("3,4,6,{a},{b}"));
            }
        }
    }
    for perm in [[0usize, 1, 2], [2, 1, 0], [1, 0, 2], [1, 2, 0]] {
        lines.push(format!("{},{},{},0,1,7,8,10,11,13,14,16,17,19,20,22,23", frames[perm[0]], frames[perm[1]], frames[perm[2]]));
    }
    ctx.evals += lines.len() as u64;
    ctx.bound("cross_process_histories", json!(lines.len()));
    ctx.bound("cross_process_runs", json!(4));
    if let Some(k) = cross_process_lines(&lines) {
        ctx.report(viol("cross-process", "C08:cross-process".to_string(), json!({"cross_process": k}), format!("history of menu indices [{k}] serializes differently in separate processes")));
    }
}

/// serialize every history in 4 separate processes; returns the first history whose text differs
fn cross_process_lines(lines: &[String]) -> Option<String> {
    let dir = std::path::PathBuf::from(format!("{}/target/run", verif_dir()));
    let _ = std::fs::create_dir_all(&dir);
    let f = dir.join(format!("c08-hist-{}-{:x}.txt", std::process::id(), h64(&lines.to_vec())));
    std::fs::write(&f, lines.join("\n")).ok()?;
    let exe = std::env::current_exe().ok()?;
    let run = || std::process::Command::new(&exe).args(["serialize-histories", f.to_str().unwrap()]).output().ok().map(|o| String::from_utf8_lossy(&o.stdout).to_string());
    let outs: Vec<Option<String>> = (0..4).map(|_| run()).collect();
    let _ = std::fs::remove_file(&f);
    let outs: Vec<Vec<String>> = outs.into_iter().map(|o| o.unwrap_or_default().lines().map(|l| l.to_string()).collect()).collect();
    if outs.iter().any(|o| o.len() != lines.len()) {
        return None;
    }
    for k in 0..lines.len() {
        if outs.iter().any(|o| o[k] != outs[0][k]) {
            return Some(lines[k].clone());
        }
    }
    None
}

// ---------------------------------------------------------------------------------------------
// C11 — concatenation over all ordered pairs of programs reachable at small depth

fn c11_histories(depth: usize, n: usize) -> Vec<Vec<usize>> {
    let mut seqs: Vec<Vec<usize>> = vec![vec![]];
    let mut fr: Vec<Vec<usize>> = vec![vec![]];
    for _ in 0..depth {
        let mut nf = vec![];
        for s in &fr {
            for k in 0..n {
                let mut t = s.clone();
                t.push(k);
                nf.push(t);
            }
        }
        seqs.extend(nf.iter().cloned());
        fr = nf;
    }
    seqs
}

fn c11_check(menu: &[Instruction], a: &[usize], b: &[usize]) -> Vec<(String, String)> {
    let r = catch(|| {
        let build = |s: &[usize]| {
            let mut p = Program::new();
            let mut r = Ref::default();
            for k in s {
                p.add_instruction(menu[*k].clone());
                r.add(&menu[*k]);
            }
            (p, r)
        };
        let (pa, ra) = build(a);
        let (pb, rb) = build(b);
        let mut out = vec![];
        let s = pa.clone() + pb.clone();
        let mut ip = pa.clone();
        ip += pb.clone();
        if ip != s {
            out.push(("add-assign-differs".to_string(), "A += B differs from A + B".to_string()));
        }
        let mut r = ra.clone();
        r.concat(&rb);
        let li = s.to_instructions();
        let (m1, body) = split(&li);
        if body != r.body {
            out.push(("body".to_string(), format!("body of A+B is {:?}, expected A's body followed by B's {:?}", body.iter().map(q).collect::<Vec<_>>(), r.body.iter().map(q).collect::<Vec<_>>())));
        }
        for (k, v) in &r.kinds {
            let want: Vec<Instruction> = v.iter().map(|(_, i)| i.clone()).collect();
            let got = m1.get(k).cloned().unwrap_or_default();
            if sorted_dbg(&want) != sorted_dbg(&got) {
                out.push((format!("definitions:{k}"), format!("{k} definitions of A+B: {:?}; expected {:?}", got.iter().map(q).collect::<Vec<_>>(), want.iter().map(q).collect::<Vec<_>>())));
            } else if got != want && *k != "frame" {
                out.push((format!("definition-position:{k}"), format!("{k} definitions of A+B are ordered {:?}; a key defined in both keeps A's position: {:?}", got.iter().map(|i| kind_key(i).unwrap().1).collect::<Vec<_>>(), want.iter().map(|i| kind_key(i).unwrap().1).collect::<Vec<_>>())));
            }
        }
        for k in m1.keys() {
            if !r.kinds.contains_key(k) {
                out.push((format!("definitions:{k}"), "definitions appear that are in neither operand".to_string()));
            }
        }
        let uq: HashSet<Qubit> = pa.get_used_qubits().union(pb.get_used_qubits()).cloned().collect();
        if &uq != s.get_used_qubits() {
            out.push(("used-qubits-union".to_string(), format!("used qubits of A+B {:?} != union {:?}", s.get_used_qubits(), uq)));
        }
        // identity
        if b.is_empty() && (s != pa || pa.clone() + Program::new() != pa) {
            out.push(("right-identity".to_string(), "A + empty != A".to_string()));
        }
        if a.is_empty() && (s != pb || Program::new() + pb.clone() != pb) {
            out.push(("left-identity".to_string(), "empty + B != B".to_string()));
        }
        out
    });
    match r {
        Ok(v) => v,
        Err(p) => vec![("panic".into(), p)],
    }
}

pub static C11: PropDef = PropDef {
    id: "C11",
    level: "model_checking",
    engine: "sweep",
    rule: "all ordered pairs (A, B) of programs reachable by <= 2 add_instruction steps over the 28-instruction definition menu of C08 (813 programs; quick: every 3rd x every 2nd, thorough: all pairs, plus each of the 21 952 three-step programs on either side against every program of <= 1 step), including the empty program on either side; A + B and A += B computed by the real code and compared with the reference ordered-map model (body concatenation, B's value for shared keys at A's position, union of used qubits, identities). state = a pair; non-trivial = pair sharing at least one definition key",
    assumptions: &["reference ordered-map model mc/src/props/hist.rs Ref; frame order left to C08"],
    run: |ctx| {
        let menu = parse_menu(MENU_DEFS);
        let hs = c11_histories(2, menu.len());
        let (sa, sb) = if ctx.tier == Tier::Quick { (3, 2) } else { (1, 1) };
        ctx.bound("programs", json!(hs.len()));
        let la: Vec<&Vec<usize>> = hs.iter().step_by(sa).collect();
        let lb: Vec<&Vec<usize>> = hs.iter().step_by(sb).collect();
        let txt = |s: &[usize]| s.iter().map(|k| MENU_DEFS[*k]).collect::<Vec<_>>();
        // thorough: also every program of exactly 3 steps on one side against every program of <= 1 step on the other
        let deep: Vec<Vec<usize>> = if ctx.tier == Tier::Thorough { c11_histories(3, menu.len()).into_iter().filter(|h| h.len() == 3).collect() } else { vec![] };
        let shallow: Vec<Vec<usize>> = c11_histories(1, menu.len());
        ctx.bound("depth3_programs", json!(deep.len()));
        let mut pairs: Vec<(&Vec<usize>, &Vec<usize>)> = vec![];
        for a in &la {
            for b in &lb {
                pairs.push((a, b));
            }
        }
        for d in &deep {
            for sh in &shallow {
                pairs.push((d, sh));
                pairs.push((sh, d));
            }
        }
        for (a, b) in &pairs {
            {
                if !ctx.take(|| json!({"a": txt(a), "b": txt(b)})) {
                    continue;
                }
                ctx.transitions += 1;
                ctx.state(&(a, b));
                let shared = a.iter().any(|x| b.iter().any(|y| kind_key(&menu[*x]).is_some() && kind_key(&menu[*x]) == kind_key(&menu[*y])));
                if shared {
                    ctx.nontrivial(&(a, b));
                }
                ctx.outcome(if shared { "pair:shared-key" } else { "pair:disjoint" });
                for (clause, detail) in c11_check(&menu, a, b) {
                    let fails = |x: &[usize], y: &[usize]| c11_check(&menu, x, y).iter().any(|(c, _)| *c == clause);
                    let sa2 = shrink_list((*a).clone(), &|x: &[usize]| fails(x, b));
                    let sb2 = shrink_list((*b).clone(), &|y: &[usize]| fails(&sa2, y));
                    let kk = |s: &[usize]| s.iter().map(|k| kind_key(&menu[*k]).map(|(kind, key)| format!("{kind}({key})")).unwrap_or("body".into())).collect::<Vec<_>>().join(",");
                    ctx.report(viol(&clause, format!("C11:{clause}:A=[{}] B=[{}]", kk(&sa2), kk(&sb2)), json!({"a": txt(&sa2), "b": txt(&sb2)}), format!("A={:?} B={:?}: {detail}", txt(a), txt(b))));
                }
            }
        }
        ctx.traces = ctx.evals;
    },
    replay: |c| {
        let menu = parse_menu(MENU_DEFS);
        let idx = |v: &Value| -> Vec<usize> { strs(v).iter().filter_map(|t| MENU_DEFS.iter().position(|m| m == t)).collect() };
        let (a, b) = (idx(&c["a"]), idx(&c["b"]));
        c11_check(&menu, &a, &b).into_iter().map(|(cl, d)| viol(&cl, format!("C11:{cl}:replay"), c.clone(), d)).collect()
    },
    caps: (55, 3000),
};
