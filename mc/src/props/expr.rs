//! C03 (serialized expressions keep their value), C12 (simplification preserves value),
//! C13 (substitution / evaluation / memory references agree) over the expression space E(d).
use crate::engine::*;
use crate::ex::*;
use num_complex::Complex64 as C;
use quil_rs::expression::Expression;
use quil_rs::quil::Quil;
use serde_json::{json, Value};
use std::collections::HashMap;
use std::str::FromStr;

#[derive(Clone, Copy, PartialEq)]
enum Which {
    C03,
    C12,
    C13,
}

thread_local! {
    static LABEL: std::cell::RefCell<&'static str> = const { std::cell::RefCell::new("") };
}
fn set_label(l: &'static str) {
    LABEL.with(|x| *x.borrow_mut() = l);
}

fn real_eval(e: &Expression, v: &Vars, m: &Memo) -> Option<C> {
    e.evaluate(v, m).ok()
}

/// returns (nontrivial, violations as (clause, detail))
fn check(which: Which, ex: &Ex, pts: &[(Vars, Memo)]) -> Vec<(String, String)> {
    let mut out = vec![];
    let r = catch(|| {
        let e = ex.to_expr();
        match which {
            Which::C03 => {
                let txt = match e.to_quil() {
                    Ok(t) => t,
                    Err(err) => {
                        out.push(("serialize".to_string(), format!("{err:?}")));
                        return;
                    }
                };
                match Expression::from_str(&txt) {
                    Err(_) => out.push(("reparse".to_string(), format!("`{txt}` does not parse"))),
                    Ok(e2) => {
                        let ex2 = Ex::from_expr(&e2);
                        // every number literal must come back exactly (as a constant of the same value), whatever
                        // its magnitude: value comparison at assignments cannot see a literal below 1e-8 turn into 0
                        if let Some(d) = literal_mismatch(ex, &ex2) {
                            out.push(("literal".to_string(), format!("`{txt}`: {d}")));
                        }
                        let mut compared = 0;
                        set_label(if ex2 == *ex { "reparsed-identical-structure" } else { "reparsed-different-structure" });
                        let special = special_points();
                        for (v, m) in pts.iter().chain(special.iter()) {
                            if gev(ex, v, m).is_none() || gev(&ex2, v, m).is_none() {
                                continue;
                            }
                            compared += 1;
                            if let (Some(a), Some(b)) = (real_eval(&e, v, m), real_eval(&e2, v, m)) {
                                if a.is_finite() && !((a - b).norm() <= 1e-12 * (1.0 + a.norm())) {
                                    out.push(("value".to_string(), format!("`{txt}` evaluates to {b}, the original to {a}")));
                                    break;
                                }
                            } else if real_eval(&e, v, m).is_some() {
                                out.push(("value".to_string(), format!("`{txt}`: re-parsed expression does not evaluate where the original does")));
                                break;
                            }
                        }
                        if compared == 0 {
                            set_label("no-comparable-point(degenerate-or-nonfinite)");
                        }
                    }
                }
            }
            Which::C12 => {
                let s = e.clone().into_simplified();
                let mut s2 = e.clone();
                s2.simplify();
                if s2 != s {
                    out.push(("simplify-vs-into_simplified".to_string(), format!("{} vs {}", s2.to_quil_or_debug(), s.to_quil_or_debug())));
                }
                let sx = Ex::from_expr(&s);
                set_label(if sx == *ex { "unchanged" } else if matches!(sx, Ex::Num(..)) { "folded-to-number" } else if sx.size() < ex.size() { "smaller" } else { "rewritten-same-or-larger" });
                if sx.has_pi() {
                    out.push(("returns-pi".to_string(), format!("simplified form {} contains pi", sx.show())));
                }
                let (mut v0, mut v1, mut a0, mut a1) = (vec![], vec![], vec![], vec![]);
                ex.vars(&mut v0);
                sx.vars(&mut v1);
                ex.addrs(&mut a0);
                sx.addrs(&mut a1);
                if v1.iter().any(|x| !v0.contains(x)) {
                    out.push(("new-variable".to_string(), format!("simplified form {} has variables {:?}", sx.show(), v1)));
                }
                if a1.iter().any(|x| !a0.contains(x)) {
                    out.push(("new-memory-reference".to_string(), format!("simplified form {} has references {:?}", sx.show(), a1)));
                }
                // the generic points, then assignments that make sub-expressions vanish or coincide with
                // literal leaves (all 0; all 1; x = 2.5, y = -1): the statement quantifies over every
                // assignment at which the original is finite, and a rewrite such as 0^e -> 0 is wrong
                // exactly where e vanishes
                let special = special_points();
                for (v, m) in pts.iter().chain(special.iter()) {
                    if gev(ex, v, m).is_none() {
                        continue;
                    }
                    if gev(&sx, v, m).is_none() {
                        // degenerate for the simplified tree: only a non-finite real value is a verdict
                        if let (Some(a), Some(b)) = (real_eval(&e, v, m), real_eval(&s, v, m)) {
                            if a.is_finite() && !b.is_finite() {
                                out.push(("value".to_string(), format!("simplifies to {} = {b} (not finite), original = {a}", sx.show())));
                                break;
                            }
                        }
                        continue;
                    }
                    if let (Some(a), Some(b)) = (real_eval(&e, v, m), real_eval(&s, v, m)) {
                        if a.is_finite() && !((a - b).norm() <= 1e-9 * (1.0 + a.norm())) {
                            out.push(("value".to_string(), format!("simplifies to {} = {b}, original = {a}", sx.show())));
                            break;
                        }
                    }
                }
            }
            Which::C13 => {
                // memory references = address leaves (as multisets, and in left-to-right order as a set of positions)
                let mut want = vec![];
                ex.addrs(&mut want);
                set_label(match (want.is_empty(), { let mut v = vec![]; ex.vars(&mut v); v.is_empty() }) {
                    (true, true) => "closed",
                    (true, false) => "variables-only",
                    (false, true) => "memory-only",
                    (false, false) => "variables-and-memory",
                });
                let mut got: Vec<(String, u64)> = e.memory_references().map(|r| (r.name.clone(), r.index)).collect();
                let mut w2 = want.clone();
                got.sort();
                w2.sort();
                if got != w2 {
                    out.push(("memory-references".to_string(), format!("reports {got:?}, the expression contains {w2:?}")));
                }
                // evaluate is Ok iff everything is supplied; substitution commutes with evaluation
                // two value assignments: a generic one, and one whose values *collide* with literal
                // leaves of the alphabet (x = 1, y = 2.5, a[0] = -1), so that a shortcut that compares
                // a substituted operand with its sibling is forced to fire
                let collide: (Vars, Memo) = ([("x".to_string(), C::new(1.0, 0.0)), ("y".to_string(), C::new(2.5, 0.0))].into(), [("a".to_string(), vec![-1.0, 1.0]), ("b".to_string(), vec![0.0, 2.5])].into());
                for (vfull, mfull) in [&pts[0], &collide] {
                let mems: Vec<Memo> = vec![
                    HashMap::new(),
                    [("a".to_string(), mfull["a"].clone())].into(),
                    mfull.clone(),
                    [("a".to_string(), vec![]), ("b".to_string(), vec![mfull["b"][0]])].into(),
                ];
                for mask in 0..4u8 {
                    let mut v: Vars = HashMap::new();
                    if mask & 1 != 0 {
                        v.insert("x".into(), vfull["x"]);
                    }
                    if mask & 2 != 0 {
                        v.insert("y".into(), vfull["y"]);
                    }
                    for m in &mems {
                        let want_ok = plain_eval(ex, &v, m).is_some();
                        let got = e.evaluate(&v, m);
                        if got.is_ok() != want_ok {
                            out.push(("evaluate-ok-iff-supplied".to_string(), format!("variables {:?}, memory {:?}: evaluate is_ok={} but supplied={}", v.keys().collect::<Vec<_>>(), m, got.is_ok(), want_ok)));
                            return;
                        }
                        // substitute the bound variables by numbers, evaluate without variables
                        let sub: HashMap<String, Expression> = v.iter().map(|(k, c)| (k.clone(), Expression::Number(*c))).collect();
                        let b = e.substitute_variables(&sub).evaluate(&HashMap::<String, C>::new(), m);
                        match (&got, &b) {
                            (Ok(a), Ok(b)) => {
                                let same = a == b || (a.is_nan() && b.is_nan()) || (a.re.to_bits() == b.re.to_bits() && a.im.to_bits() == b.im.to_bits()) || (a - b).norm() <= 1e-15 * (1.0 + a.norm());
                                if !same {
                                    out.push(("substitute-then-evaluate".to_string(), format!("evaluate gives {a}, substitute+evaluate gives {b}")));
                                    return;
                                }
                            }
                            (Err(_), Err(_)) => {}
                            _ => {
                                out.push(("substitute-then-evaluate".to_string(), format!("evaluate is_ok={}, substitute+evaluate is_ok={}", got.is_ok(), b.is_ok())));
                                return;
                            }
                        }
                        // partial substitution leaves the other variables in place
                        if mask == 1 {
                            let mut vs = vec![];
                            Ex::from_expr(&e.substitute_variables(&sub)).vars(&mut vs);
                            let mut orig = vec![];
                            ex.vars(&mut orig);
                            let want_left: Vec<String> = orig.into_iter().filter(|n| n != "x").collect();
                            if vs != want_left {
                                out.push(("partial-substitution".to_string(), format!("after substituting x the variables are {vs:?}, expected {want_left:?}")));
                                return;
                            }
                        }
                    }
                }
                }
            }
        }
    });
    if let Err(p) = r {
        out.push(("panic".to_string(), p));
    }
    out
}

/// exact value of a closed subtree built from literals with sign and sum only (what a printed complex or
/// negative literal parses to)
fn const_value(e: &Ex) -> Option<C> {
    Some(match e {
        Ex::Num(r, i) => C::new(*r, *i),
        Ex::Pre(0, c) => -const_value(c)?,
        Ex::Pre(_, c) => const_value(c)?,
        Ex::In(1, a, b) => const_value(a)? + const_value(b)?,
        Ex::In(2, a, b) => const_value(a)? - const_value(b)?,
        _ => return None,
    })
}

/// first number literal of `orig` whose counterpart in the re-parsed tree is not a constant of exactly the
/// same value (shapes are followed as long as they agree; a differing shape is left to the value clause)
fn literal_mismatch(orig: &Ex, re: &Ex) -> Option<String> {
    match orig {
        Ex::Num(r, i) => {
            let z = C::new(*r, *i);
            match const_value(re) {
                Some(v) if v == z => None,
                Some(v) => Some(format!("the literal {} came back as {}", Ex::Num(*r, *i).show(), Ex::Num(v.re, v.im).show())),
                None => Some(format!("the literal {} came back as the non-constant {}", Ex::Num(*r, *i).show(), re.show())),
            }
        }
        Ex::Fn(f, c) => match re {
            Ex::Fn(f2, c2) if f2 == f => literal_mismatch(c, c2),
            _ => None,
        },
        Ex::Pre(p, c) => match re {
            Ex::Pre(p2, c2) if p2 == p => literal_mismatch(c, c2),
            _ => None,
        },
        Ex::In(o, l, r) => match re {
            Ex::In(o2, l2, r2) if o2 == o => literal_mismatch(l, l2).or_else(|| literal_mismatch(r, r2)),
            _ => None,
        },
        _ => None,
    }
}

/// literals of extreme or awkward magnitude (C03's literal layer)
fn awkward_literals() -> Vec<Ex> {
    vec![
        Ex::Num(1e-17, 0.0),
        Ex::Num(-2.5e-300, 0.0),
        Ex::Num(0.0, 3e-20),
        Ex::Num(4e-18, -7e-200),
        Ex::Num(5e-324, 0.0),
        Ex::Num(1e-7, 0.0),
        Ex::Num(1e15, 0.0),
        Ex::Num(1e16, 0.0),
        Ex::Num(1e21, 0.0),
        Ex::Num(1e300, -1e300),
        Ex::Num(1.7976931348623157e308, 0.0),
        Ex::Num(1.0 / 3.0, 0.0),
        Ex::Num(0.1, 0.2),
        Ex::Num(123456789.123456789, 0.0),
        Ex::Num(9007199254740993.0, 0.0),
        Ex::Num(1.5, 1e-300),
    ]
}

fn special_points() -> Vec<(Vars, Memo)> {
    let mk = |x: f64, y: f64, a: [f64; 2], b: [f64; 2]| -> (Vars, Memo) {
        ([("x".to_string(), C::new(x, 0.0)), ("y".to_string(), C::new(y, 0.0))].into(), [("a".to_string(), a.to_vec()), ("b".to_string(), b.to_vec())].into())
    };
    vec![mk(0.0, 0.0, [0.0, 0.0], [0.0, 0.0]), mk(1.0, 1.0, [1.0, 1.0], [1.0, 1.0]), mk(2.5, -1.0, [-1.0, 2.5], [2.5, 0.0])]
}

/// does the tree contain a power whose base simplifies to the number 0 and whose exponent does not
/// simplify to a number (the situation in which the simplifier's pinned rewrite 0^e -> 0 fires)?
fn has_pinned_zero_power_site(e: &Ex) -> bool {
    match e {
        Ex::In(op, l, r) => {
            if *op == 0 {
                let zero_base = matches!(Ex::from_expr(&l.to_expr().into_simplified()), Ex::Num(re, im) if re == 0.0 && im == 0.0);
                if zero_base && !matches!(Ex::from_expr(&r.to_expr().into_simplified()), Ex::Num(..)) {
                    return true;
                }
            }
            has_pinned_zero_power_site(l) || has_pinned_zero_power_site(r)
        }
        Ex::Fn(_, c) | Ex::Pre(_, c) => has_pinned_zero_power_site(c),
        _ => false,
    }
}

fn id_of(w: Which) -> &'static str {
    match w {
        Which::C03 => "C03",
        Which::C12 => "C12",
        Which::C13 => "C13",
    }
}

fn eval_case(ctx: &mut Ctx, which: Which, ex: &Ex, pts: &[(Vars, Memo)], shrinks: &mut usize) {
    set_label("");
    let vs = check(which, ex, pts);
    if ex.has_compound() {
        ctx.nontrivial(&ex.show());
    }
    let label = LABEL.with(|x| *x.borrow());
    ctx.outcome(if !vs.is_empty() { "violating" } else if label.is_empty() { "ok" } else { label });
    let id = id_of(which);
    let mut seen = std::collections::BTreeSet::new();
    for (clause, detail) in vs {
        if !seen.insert(clause.clone()) {
            continue;
        }
        let did = *shrinks < if which == Which::C12 { 200_000 } else { 3000 };
        // C12: a witness is never shrunk *into* the pinned 0^e rewrite (known finding): a case that does not
        // contain a site of that rewrite must keep failing without one, so that e.g. a wrong fold of the
        // literal 0^0 is not reported under the known class just because 0^%x fails as well
        let avoid_site = which == Which::C12 && clause == "value" && !has_pinned_zero_power_site(ex);
        let small = if did {
            *shrinks += 1;
            shrink(ex.clone(), &|c: &Ex| (!avoid_site || !has_pinned_zero_power_site(c)) && check(which, c, pts).iter().any(|(cl, _)| *cl == clause))
        } else {
            ex.clone()
        };
        let mut fp = if did { format!("{id}:{clause}:{}", small.normalised().show()) } else { format!("{id}:{clause}:(unshrunk)") };
        if which == Which::C12 && clause == "value" && did {
            // the one rewrite the baseline suite pins although it changes a finite value: 0^e -> 0,
            // wrong exactly where e evaluates to 0 (0^0 = 1).  Structural class: the 1-minimal
            // witness is a power with literal base 0 and the simplifier returned the number 0.
            if let Ex::In(op, l, r) = &small {
                let is_pow = *op == 0;
                let folded = matches!(Ex::from_expr(&small.to_expr().into_simplified()), Ex::Num(re, im) if re == 0.0 && im == 0.0);
                if is_pow && folded && matches!(**l, Ex::Num(re, im) if re == 0.0 && im == 0.0) && !matches!(**r, Ex::Num(..)) {
                    fp = format!("{id}:value:zero-base-power-folded-to-0");
                }
            }
        }
        ctx.report(viol(&clause, fp, json!({"expr": small}), format!("{}: {detail}", ex.show())));
    }
}

fn sweep(ctx: &mut Ctx, which: Which) {
    let pts = points();
    let sp = Space::full();
    let mut shrinks = 0usize;
    ctx.bound("leaves", json!(leaves().iter().map(|l| l.show()).collect::<Vec<_>>()));
    ctx.bound("evaluation_points", json!(pts.len()));
    // depth <= 1
    for e in &sp.all1 {
        if ctx.take(|| json!({"expr": e.show()})) {
            eval_case(ctx, which, e, &pts, &mut shrinks);
        }
    }
    // depth 2
    let mut todo: Vec<D2> = vec![];
    sp.depth2(|d| {
        if ctx.take(|| json!({"expr": sp.build(&d).show()})) {
            todo.push(d);
        }
    });
    for d in todo {
        let e = sp.build(&d);
        eval_case(ctx, which, &e, &pts, &mut shrinks);
    }
    ctx.bound("completed_depth_full_alphabet", json!(2));
    // balanced depth 3 over a structured sub-alphabet: (affine side) op (affine side), where an affine side
    // is (L * M) + N, (L / M) - N, N + (L * M), ... over leaves {%x, %y, 2.5, a[0]}.  This is the shape the
    // simplifier's multi-level rewrite rules (combining like terms, factoring, cancelling) match on, and
    // it is out of reach of "one deep branch" layers.
    {
        let lv = [Ex::Var("x".into()), Ex::Var("y".into()), Ex::Num(2.5, 0.0), Ex::Addr("a".into(), 0)];
        let mut sides: Vec<Ex> = vec![];
        for l in &lv {
            for m in &lv {
                for mul in [4u8, 3] {
                    let prod = Ex::In(mul, Box::new(l.clone()), Box::new(m.clone()));
                    for n in &lv {
                        for add in [1u8, 2] {
                            sides.push(Ex::In(add, Box::new(prod.clone()), Box::new(n.clone())));
                            sides.push(Ex::In(add, Box::new(n.clone()), Box::new(prod.clone())));
                        }
                    }
                }
            }
        }
        let outer: &[u8] = if ctx.tier == Tier::Quick { &[1, 2] } else { &[1, 2, 4, 3, 0] };
        ctx.bound("balanced_depth3_sides", json!(sides.len()));
        for a in &sides {
            for b in &sides {
                for o in outer {
                    let mk = || Ex::In(*o, Box::new(a.clone()), Box::new(b.clone()));
                    if ctx.take(|| json!({"expr": mk().show()})) {
                        eval_case(ctx, which, &mk(), &pts, &mut shrinks);
                    }
                }
            }
        }
    }
    // literal layer: awkward magnitudes alone, under every unary node, and combined with every leaf by
    // every infix operator on either side
    {
        let aw = awkward_literals();
        let base = leaves();
        let mut trees: Vec<Ex> = aw.clone();
        for a in &aw {
            for f in 0..5u8 {
                trees.push(Ex::Fn(f, Box::new(a.clone())));
            }
            for p in 0..2u8 {
                trees.push(Ex::Pre(p, Box::new(a.clone())));
            }
            for b in base.iter().chain(aw.iter()) {
                for o in 0..5u8 {
                    trees.push(Ex::In(o, Box::new(a.clone()), Box::new(b.clone())));
                    trees.push(Ex::In(o, Box::new(b.clone()), Box::new(a.clone())));
                }
            }
        }
        ctx.bound("literal_layer_trees", json!(trees.len()));
        for e in &trees {
            if ctx.take(|| json!({"expr": e.show()})) {
                eval_case(ctx, which, e, &pts, &mut shrinks);
            }
        }
    }
    // every tree of depth <= 3 over a minimal structural alphabet {a[0], b[1], 1} x {sin, unary minus} x {+}:
    // nesting shapes (a wrapper around a compound as a right operand, wrappers of wrappers, ...) rather
    // than operator variety
    {
        let l0 = vec![Ex::Addr("a".into(), 0), Ex::Addr("b".into(), 1), Ex::Num(1.0, 0.0)];
        let mut cur = l0.clone();
        for _ in 0..3 {
            let mut nx = l0.clone();
            for e in &cur {
                nx.push(Ex::Fn(3, Box::new(e.clone())));
                nx.push(Ex::Pre(0, Box::new(e.clone())));
            }
            for a in &cur {
                for b in &cur {
                    nx.push(Ex::In(1, Box::new(a.clone()), Box::new(b.clone())));
                }
            }
            cur = nx;
        }
        ctx.bound("structural_depth3_trees", json!(cur.len()));
        for e in &cur {
            if ctx.take(|| json!({"expr": e.show()})) {
                eval_case(ctx, which, e, &pts, &mut shrinks);
            }
        }
    }
    if ctx.tier == Tier::Thorough {
        // reduced alphabet, depth 3 with one deep branch: unary over depth-2, infix of (depth<=2) x (depth<=1) both ways
        let rs = Space::new(reduced_leaves(), vec![3, 4], vec![0], vec![0, 1, 2, 3, 4]);
        let mut all2: Vec<Ex> = rs.all1.clone();
        rs.depth2(|d| all2.push(rs.build(&d)));
        let d2_start = rs.all1.len();
        ctx.bound("reduced_depth3_leaves", json!(reduced_leaves().iter().map(|l| l.show()).collect::<Vec<_>>()));
        for c in d2_start..all2.len() {
            for u in 0..3usize {
                let mk = || if u < 2 { Ex::Fn(rs.funs[u], Box::new(all2[c].clone())) } else { Ex::Pre(0, Box::new(all2[c].clone())) };
                if ctx.take(|| json!({"expr": mk().show()})) {
                    eval_case(ctx, which, &mk(), &pts, &mut shrinks);
                }
            }
        }
        for deep in d2_start..all2.len() {
            for sh in 0..rs.all1.len() {
                for o in 0..5u8 {
                    for side in 0..2 {
                        let mk = || {
                            if side == 0 {
                                Ex::In(o, Box::new(all2[deep].clone()), Box::new(rs.all1[sh].clone()))
                            } else {
                                Ex::In(o, Box::new(rs.all1[sh].clone()), Box::new(all2[deep].clone()))
                            }
                        };
                        if ctx.take(|| json!({"expr": mk().show()})) {
                            eval_case(ctx, which, &mk(), &pts, &mut shrinks);
                        }
                    }
                }
            }
        }
        if !ctx.is_capped() {
            ctx.bound("completed_depth_reduced_alphabet", json!(3));
        }
    }
}

fn replay(which: Which, case: &Value) -> Vec<Viol> {
    let Ok(ex) = serde_json::from_value::<Ex>(case["expr"].clone()) else { return vec![] };
    let pts = points();
    let id = id_of(which);
    check(which, &ex, &pts).into_iter().map(|(cl, d)| viol(&cl, format!("{id}:{cl}:{}", ex.show()), case.clone(), d)).collect()
}

const ASSUME: &[&str] = &[
    "values are compared at 3 fixed generic assignments (x,y real; a,b two cells each) and, for C03 and C12, 3 special ones (all 0; all 1; values equal to literal leaves); a point is skipped when the reference evaluator flags an operand of sqrt/^ with negative real part and a tiny but non-zero imaginary part (rounding noise next to the branch cut; an exactly zero imaginary part is compared), an ill-conditioned intermediate (|z|<1e-8 or >1e8) or a near-zero divisor (DESIGN §4 C03)",
    "finite lattice of literals {0,1,-1,2.5,1+2i,-2i,pi}; not all reals",
];

pub static C03: PropDef = PropDef {
    id: "C03",
    level: "exploration",
    engine: "sweep",
    rule: "every expression tree of depth <= 2 over leaves {0,1,-1,2.5,1+2i,-2i,pi,%x,%y,a[0],b[1]}, the 5 functions, prefix -/+ and the 5 infix operators, built through the public constructors (2.4 M trees), plus a balanced depth-3 layer: (affine side) op (affine side) with sides (L*M)+N, N-(L/M), ... over {%x, %y, 2.5, a[0]} (512 sides; op in {+,-}, thorough all five), and every tree of depth <= 3 over the structural alphabet {a[0], b[1], 1} x {sin, unary minus} x {+} (132 528 trees); thorough adds a reduced-alphabet depth-3 layer with one deep branch. plus a literal layer (16 literals of extreme or awkward magnitude - 1e-17, 5e-324, 1e300-1e300i, 1/3, 2^53+1, ... - alone, under every unary node and combined with every leaf by every operator). Each is printed, parsed back, every number literal must come back exactly, and both are evaluated at 3 generic points and 3 special ones (all 0; all 1; x = 2.5, y = -1, i.e. values colliding with literal leaves). non-trivial = non-leaf tree, distinct by structure",
    assumptions: ASSUME,
    run: |ctx| sweep(ctx, Which::C03),
    replay: |c| replay(Which::C03, c),
    caps: (55, 3000),
};
pub static C12: PropDef = PropDef {
    id: "C12",
    level: "exploration",
    engine: "sweep",
    rule: "every expression tree of depth <= 2 over the same alphabet as C03 (2.4 M trees) plus the balanced depth-3 layer and the structural depth-3 layer of C03; thorough adds reduced depth 3 with one deep branch; each is simplified by the real simplifier and original and result are evaluated at 3 generic points and 3 special ones (all 0; all 1; x = 2.5, y = -1) wherever the original is finite and well-conditioned (tolerance 1e-9 mixed; a non-finite result where the original is finite is a violation), plus: no new variables / references, no pi, simplify() == into_simplified(). non-trivial = non-leaf tree",
    assumptions: ASSUME,
    run: |ctx| sweep(ctx, Which::C12),
    replay: |c| replay(Which::C12, c),
    caps: (55, 3000),
};
pub static C13: PropDef = PropDef {
    id: "C13",
    level: "exploration",
    engine: "sweep",
    rule: "every expression tree of depth <= 2 over the same alphabet (plus the balanced and the structural depth-3 layers of C03) x 2 value assignments (a generic one and one whose values collide with literal leaves of the alphabet) x all 4 subsets of {x,y} bound x 4 memory maps (none, a only, a and b, a too short): evaluate is Ok iff everything is supplied, substitute-then-evaluate == evaluate, memory_references == address leaves (multiset), partial substitution keeps other variables. non-trivial = non-leaf tree",
    assumptions: &["finite lattice of literal values and one value assignment per variable"],
    run: |ctx| sweep(ctx, Which::C13),
    replay: |c| replay(Which::C13, c),
    caps: (55, 3000),
};
