use crate::engine::PropDef;

pub mod c28;

pub static ALL: &[&PropDef] = &[&c28::DEF];

pub fn extra_command(_cmd: &str, _args: &[String]) -> Option<i32> {
    None
}
