use crate::engine::PropDef;

pub mod analysis;
pub mod api;
pub mod c28;
pub mod cal;
pub mod expr;
pub mod gates;
pub mod handler;
pub mod hist;
pub mod lit;
pub mod parse;
pub mod prog;
pub mod sched;
pub mod seq;

pub static ALL: &[&PropDef] = &[&parse::C01, &parse::C02, &expr::C03, &api::C04, &lit::C05, &lit::C06, &lit::C07, &hist::C08, &hist::C09, &hist::C10, &hist::C11, &expr::C12, &expr::C13, &gates::C14, &gates::C15, &cal::C16, &cal::C17, &cal::C18, &cal::C19, &seq::C20, &seq::C21, &sched::C22, &sched::C23, &sched::C24, &sched::C25, &handler::C26, &handler::C27, &c28::DEF, &analysis::C29, &analysis::C30, &handler::C31, &analysis::C32, &prog::C33, &prog::C34, &prog::C35];

pub fn extra_command(cmd: &str, args: &[String]) -> Option<i32> {
    match cmd {
        "serialize-histories" => Some(hist::serialize_histories_cmd(args.first().map(|s| s.as_str()).unwrap_or(""))),
        _ => None,
    }
}
