//! C33 (wrap_in_loop repeats the body n times), C34 (placeholder resolution), C35 (dead-code removal).
use crate::engine::*;
use crate::refm::*;
use crate::util::*;
use num_complex::Complex64 as C;
use quil_rs::expression::Expression;
use quil_rs::instruction::*;
use quil_rs::program::scheduling::*;
use quil_rs::quil::Quil;
use quil_rs::Program;
use serde_json::{json, Value};
use std::collections::{BTreeSet, HashMap, HashSet};
use std::str::FromStr;

// ------------------------------------------------------------------------------------------ C33

/// classical interpreter: DECLARE / MOVE / ADD / SUB with integer literals, LABEL / JUMP* / HALT;
/// logs every executed non-control instruction
fn interp(p: &Program, horizon: usize) -> Result<Vec<String>, String> {
    let body: Vec<&Instruction> = p.body_instructions().collect();
    let mut mem: HashMap<(String, u64), i64> = HashMap::new();
    let mut pc = 0usize;
    let mut log = vec![];
    let mut steps = 0;
    let mut labels: HashMap<String, usize> = HashMap::new();
    for (i, x) in body.iter().enumerate() {
        if let Instruction::Label(l) = x {
            if labels.insert(l.target.to_quil_or_debug(), i).is_some() {
                return Err("duplicate label".into());
            }
        }
    }
    let get = |mem: &HashMap<(String, u64), i64>, r: &MemoryReference| *mem.get(&(r.name.clone(), r.index)).unwrap_or(&0);
    while pc < body.len() {
        steps += 1;
        if steps > horizon {
            return Err("horizon".into());
        }
        match body[pc] {
            Instruction::Label(_) => {}
            Instruction::Halt() => break,
            Instruction::Jump(j) => {
                pc = *labels.get(&j.target.to_quil_or_debug()).ok_or("no label")?;
                continue;
            }
            Instruction::JumpWhen(j) => {
                if get(&mem, &j.condition) != 0 {
                    pc = *labels.get(&j.target.to_quil_or_debug()).ok_or("no label")?;
                    continue;
                }
            }
            Instruction::JumpUnless(j) => {
                if get(&mem, &j.condition) == 0 {
                    pc = *labels.get(&j.target.to_quil_or_debug()).ok_or("no label")?;
                    continue;
                }
            }
            Instruction::Move(m) => {
                if let ArithmeticOperand::LiteralInteger(v) = m.source {
                    mem.insert((m.destination.name.clone(), m.destination.index), v);
                }
                log.push(body[pc].to_quil_or_debug());
            }
            Instruction::Arithmetic(a) => {
                if let ArithmeticOperand::LiteralInteger(v) = a.source {
                    let e = mem.entry((a.destination.name.clone(), a.destination.index)).or_insert(0);
                    match a.operator {
                        ArithmeticOperator::Add => *e += v,
                        ArithmeticOperator::Subtract => *e -= v,
                        _ => {}
                    }
                }
                log.push(body[pc].to_quil_or_debug());
            }
            other => log.push(other.to_quil_or_debug()),
        }
        pc += 1;
    }
    Ok(log)
}

const C33_MENU: &[&str] = &["X 0", "PRAGMA p", "PULSE 0 \"f\" w", "MOVE a 1", "ADD a 1", "MEASURE 0 ro", "RX(a) 1", "LABEL @inner"];
const C33_DEFS: &str = "DECLARE a INTEGER\nDECLARE ro BIT\nDEFFRAME 0 \"f\":\n    A: 1\nDEFWAVEFORM w:\n    1\nDEFCAL X 0:\n    NOP\nDEFCAL MEASURE 0 dest:\n    NOP\nDEFGATE G AS PERMUTATION:\n    0, 1\nDEFCIRCUIT CC:\n    X 0\nPRAGMA EXTERN f \"INTEGER\"\n";

fn c33_check(body: &[usize], iters: u32, idx: u64, ph: bool) -> Vec<(String, String)> {
    let r = catch(|| {
        let mut out = vec![];
        let src = format!("{C33_DEFS}{}\n", body.iter().map(|k| C33_MENU[*k]).collect::<Vec<_>>().join("\n"));
        let p = Program::from_str(&src).expect("c33 program");
        // a body that repeats a label is not a well-formed program: outside the property
        let Ok(base) = interp(&p, 1000) else { return out };
        let tgt = if ph { Target::Placeholder(TargetPlaceholder::new("loop".into())) } else { Target::Fixed("loop-start".into()) };
        let mut w = p.wrap_in_loop(MemoryReference::new("cnt".into(), idx), tgt, iters);
        if ph {
            w.resolve_placeholders();
        }
        // every definition preserved
        let is_def = |i: &Instruction| {
            matches!(
                i,
                Instruction::FrameDefinition(_) | Instruction::WaveformDefinition(_) | Instruction::CalibrationDefinition(_) | Instruction::MeasureCalibrationDefinition(_) | Instruction::GateDefinition(_) | Instruction::CircuitDefinition(_)
            ) || matches!(i, Instruction::Pragma(pr) if pr.name == "EXTERN")
        };
        let defs_of = |x: &Program| -> Vec<String> { x.to_instructions().iter().filter(|i| is_def(i)).map(|i| i.to_quil_or_debug()).collect() };
        if defs_of(&w) != defs_of(&p) {
            out.push(("definitions-changed".to_string(), "definitions of the wrapped program differ from the original's".to_string()));
        }
        for (name, region) in &p.memory_regions {
            if w.memory_regions.get(name) != Some(region) {
                out.push(("declaration-lost".to_string(), format!("declaration of {name} lost or changed")));
            }
        }
        match iters {
            0 => {
                if w.body_instructions().count() != 0 {
                    out.push(("n0-body-not-empty".to_string(), format!("n = 0 leaves {} body instructions", w.body_instructions().count())));
                }
                if w.memory_regions != p.memory_regions {
                    out.push(("n0-declarations-changed".to_string(), "n = 0 changed the declarations".to_string()));
                }
            }
            1 => {
                if w != p {
                    out.push(("n1-changed".to_string(), "n = 1 does not return the program unchanged".to_string()));
                }
            }
            _ => {
                // the counter cell the loop uses must exist in the wrapped program's own declarations
                match w.memory_regions.get("cnt") {
                    Some(r) if r.size.length > idx => {}
                    other => out.push(("counter-not-declared".to_string(), format!("the loop counts in cnt[{idx}], but the wrapped program declares cnt as {:?}", other.map(|r| r.size.length)))),
                }
                match interp(&w, 10000) {
                Err(e) => out.push((format!("does-not-terminate:index{}", idx.min(1)), format!("the wrapped program does not run to completion ({e}); text: {}", w.to_quil_or_debug().replace('\n', "; ")))),
                Ok(log) => {
                    let filt: Vec<String> = log.into_iter().filter(|l| !l.contains("cnt")).collect();
                    let mut want = vec![];
                    for _ in 0..iters {
                        want.extend(base.iter().cloned());
                    }
                    if filt != want {
                        out.push((format!("trace-differs:index{}", idx.min(1)), format!("executed {} body instructions, expected body x {iters} = {}", filt.len(), want.len())));
                    }
                }
            }
            }
        }
        out
    });
    match r {
        Ok(v) => v,
        Err(p) => vec![("panic".into(), p)],
    }
}

pub static C33: PropDef = PropDef {
    id: "C33",
    level: "model_checking",
    engine: "sweep",
    rule: "every body of length <= 3 (thorough 5) over {X 0, PRAGMA p, PULSE, MOVE a 1, ADD a 1, MEASURE 0 ro, RX(a) 1, LABEL @inner} on a header with one definition of every kind x n in 0..4 (thorough 0..10) x counter reference cnt[0] / cnt[1] x fixed / placeholder start label; the wrapped program is executed by a small classical interpreter (states = (pc, memory), horizon 10000 steps) and its trace of non-control instructions is compared with body^n; the counter cell must lie inside the region the wrapped program declares; n = 0 / n = 1 clauses; definitions preserved. non-trivial = case with n >= 2 and a non-empty body",
    assumptions: &["interpreter mc/src/props/prog.rs interp(): integer MOVE/ADD/SUB, LABEL/JUMP/JUMP-WHEN/JUMP-UNLESS/HALT; everything else is logged as executed"],
    run: |ctx| {
        let l = ctx.tier.pick(3, 5);
        let nmax = ctx.tier.pick(4u32, 10);
        for len in 0..=l {
            sequences(C33_MENU.len(), len, |b| {
                for iters in 0..=nmax {
                    for idx in [0u64, 1] {
                        for ph in [false, true] {
                            if !ctx.take(|| json!({"body": b.iter().map(|k| C33_MENU[*k]).collect::<Vec<_>>(), "n": iters, "counter_index": idx, "placeholder_label": ph})) {
                                continue;
                            }
                            ctx.transitions += (iters as u64) * (b.len() as u64 + 3);
                            ctx.state(&(b, iters, idx, ph));
                            if iters >= 2 && !b.is_empty() {
                                ctx.nontrivial(&(b, iters, idx, ph));
                            }
                            ctx.outcome(&format!("n={}", iters.min(2)));
                            for (clause, detail) in c33_check(b, iters, idx, ph) {
                                let fails = |s: &[usize]| c33_check(s, iters, idx, ph).iter().any(|(c, _)| *c == clause);
                                let small = shrink_idx(b.to_vec(), &fails);
                                ctx.report(viol(&clause, format!("C33:{clause}:n{}", iters.min(2)), json!({"body": small.iter().map(|k| C33_MENU[*k]).collect::<Vec<_>>(), "n": iters, "counter_index": idx, "placeholder_label": ph}), format!("body {:?}, n = {iters}, counter cnt[{idx}]: {detail}", b.iter().map(|k| C33_MENU[*k]).collect::<Vec<_>>())));
                            }
                        }
                    }
                }
            });
        }
        ctx.traces = ctx.evals;
    },
    replay: |c| {
        let body: Vec<usize> = strs(&c["body"]).iter().filter_map(|t| C33_MENU.iter().position(|m| m == t)).collect();
        let (n, idx, ph) = (c["n"].as_u64().unwrap_or(0) as u32, c["counter_index"].as_u64().unwrap_or(0), c["placeholder_label"].as_bool().unwrap_or(false));
        c33_check(&body, n, idx, ph).into_iter().map(|(cl, d)| viol(&cl, format!("C33:{cl}:n{}", n.min(2)), c.clone(), d)).collect()
    },
    caps: (50, 3000),
};

// ------------------------------------------------------------------------------------------ C34

struct PhMenu {
    items: Vec<(String, Instruction)>,
    qph: Vec<QubitPlaceholder>,
    tph: Vec<TargetPlaceholder>,
}
fn c34_menu() -> PhMenu {
    let p1 = QubitPlaceholder::default();
    let p2 = QubitPlaceholder::default();
    let t1 = TargetPlaceholder::new("a".into());
    let t2 = TargetPlaceholder::new("a".into());
    let t3 = TargetPlaceholder::new("a_0".into());
    let qs = vec![Qubit::Fixed(0), Qubit::Fixed(1), Qubit::Placeholder(p1.clone()), Qubit::Placeholder(p2.clone())];
    let ts = vec![Target::Fixed("a".into()), Target::Fixed("a_0".into()), Target::Placeholder(t1.clone()), Target::Placeholder(t2.clone()), Target::Placeholder(t3.clone()), Target::Fixed("a_1".into())];
    let one = Expression::Number(C::new(1., 0.));
    let mut items: Vec<(String, Instruction)> = vec![];
    for (qi, q) in qs.iter().enumerate() {
        let f = FrameIdentifier::new("f".into(), vec![q.clone()]);
        let wf = || WaveformInvocation::new("w".into(), Default::default());
        let nm = |s: &str| format!("{s}(q{qi})");
        items.push((nm("Gate"), Instruction::Gate(Gate::new("X", vec![], vec![q.clone()], vec![]).unwrap())));
        items.push((nm("Measure"), Instruction::Measurement(Measurement::new(None, q.clone(), None))));
        items.push((nm("Reset"), Instruction::Reset(Reset::new(Some(q.clone())))));
        items.push((nm("Delay"), Instruction::Delay(Delay::new(one.clone(), vec![], vec![q.clone()]))));
        items.push((nm("Fence"), Instruction::Fence(Fence::new(vec![q.clone()]))));
        items.push((nm("Pulse"), Instruction::Pulse(Pulse::new(true, f.clone(), wf()))));
        items.push((nm("Capture"), Instruction::Capture(Capture::new(true, f.clone(), MemoryReference::new("r".into(), 0), wf()))));
        items.push((nm("SetPhase"), Instruction::SetPhase(SetPhase::new(f.clone(), one.clone()))));
        items.push((nm("ShiftFrequency"), Instruction::ShiftFrequency(ShiftFrequency::new(f.clone(), one.clone()))));
        items.push((nm("SwapPhases"), Instruction::SwapPhases(SwapPhases::new(f.clone(), FrameIdentifier::new("g".into(), vec![Qubit::Fixed(1)])))));
        items.push((nm("SwapPhases2nd"), Instruction::SwapPhases(SwapPhases::new(FrameIdentifier::new("g".into(), vec![Qubit::Fixed(1)]), f.clone()))));
        items.push((nm("RawCapture"), Instruction::RawCapture(RawCapture::new(false, f.clone(), one.clone(), MemoryReference::new("r".into(), 0)))));
        items.push((nm("Gate2"), Instruction::Gate(Gate::new("CNOT", vec![], vec![Qubit::Fixed(1), q.clone()], vec![GateModifier::Dagger]).unwrap())));
    }
    // instructions holding BOTH placeholders, in either order (a resolver that declines one of them must
    // still see the other)
    for (a, b, tag) in [(2usize, 3usize, "12"), (3, 2, "21")] {
        let (qa, qb) = (qs[a].clone(), qs[b].clone());
        items.push((format!("GatePP({tag})"), Instruction::Gate(Gate::new("CNOT", vec![], vec![qa.clone(), qb.clone()], vec![]).unwrap())));
        items.push((format!("FencePP({tag})"), Instruction::Fence(Fence::new(vec![qa.clone(), Qubit::Fixed(0), qb.clone()]))));
        items.push((format!("DelayPP({tag})"), Instruction::Delay(Delay::new(one.clone(), vec![], vec![qa.clone(), qb.clone()]))));
        items.push((format!("PulsePP({tag})"), Instruction::Pulse(Pulse::new(true, FrameIdentifier::new("f".into(), vec![qa.clone(), qb.clone()]), WaveformInvocation::new("w".into(), Default::default())))));
        items.push((format!("SwapPhasesPP({tag})"), Instruction::SwapPhases(SwapPhases::new(FrameIdentifier::new("f".into(), vec![qa.clone()]), FrameIdentifier::new("g".into(), vec![qb.clone()])))));
    }
    for (ti, t) in ts.iter().enumerate() {
        let nm = |s: &str| format!("{s}(t{ti})");
        items.push((nm("Label"), Instruction::Label(Label::new(t.clone()))));
        items.push((nm("Jump"), Instruction::Jump(Jump::new(t.clone()))));
        items.push((nm("JumpWhen"), Instruction::JumpWhen(JumpWhen::new(t.clone(), MemoryReference::new("r".into(), 0)))));
        items.push((nm("JumpUnless"), Instruction::JumpUnless(JumpUnless::new(t.clone(), MemoryReference::new("r".into(), 0)))));
    }
    PhMenu { items, qph: vec![p1, p2], tph: vec![t1, t2, t3] }
}
fn quals(i: &Instruction) -> Vec<Qubit> {
    match i {
        Instruction::Gate(g) => g.qubits.clone(),
        Instruction::Measurement(m) => vec![m.qubit.clone()],
        Instruction::Reset(r) => r.qubit.iter().cloned().collect(),
        Instruction::Delay(d) => d.qubits.clone(),
        Instruction::Fence(f) => f.qubits.clone(),
        Instruction::Pulse(p) => p.frame.qubits.clone(),
        Instruction::Capture(p) => p.frame.qubits.clone(),
        Instruction::RawCapture(p) => p.frame.qubits.clone(),
        Instruction::SetPhase(p) => p.frame.qubits.clone(),
        Instruction::ShiftFrequency(p) => p.frame.qubits.clone(),
        Instruction::SwapPhases(s) => s.frame_1.qubits.iter().chain(s.frame_2.qubits.iter()).cloned().collect(),
        _ => vec![],
    }
}
fn targ(i: &Instruction) -> Option<Target> {
    match i {
        Instruction::Label(l) => Some(l.target.clone()),
        Instruction::Jump(j) => Some(j.target.clone()),
        Instruction::JumpWhen(j) => Some(j.target.clone()),
        Instruction::JumpUnless(j) => Some(j.target.clone()),
        _ => None,
    }
}

/// custom: None = default resolution; Some(mask) = custom resolvers mapping exactly the masked
/// placeholders (bits 0-1: qubit placeholders -> 7, 8; bits 2-4: label placeholders -> L0..L2)
fn c34_check(m: &PhMenu, body: &[usize], custom: Option<u32>) -> Vec<(String, String)> {
    let r = catch(|| {
        let mut out: Vec<(String, String)> = vec![];
        let mut add = |c: String, d: String| {
            if !out.iter().any(|(x, _)| *x == c) {
                out.push((c, d))
            }
        };
        let mut p = Program::new();
        for k in body {
            p.add_instruction(m.items[*k].1.clone());
        }
        let before: Vec<Instruction> = p.body_instructions().cloned().collect();
        match custom {
            None => p.resolve_placeholders(),
            Some(mask) => {
                let qph = m.qph.clone();
                let tph = m.tph.clone();
                let qres = move |q: &QubitPlaceholder| qph.iter().position(|x| x == q).filter(|i| mask & (1 << i) != 0).map(|i| 7 + i as u64);
                let tres = move |t: &TargetPlaceholder| tph.iter().position(|x| x == t).filter(|i| mask & (4 << i) != 0).map(|i| format!("L{i}"));
                p.resolve_placeholders_with_custom_resolvers(Box::new(tres), Box::new(qres));
            }
        }
        let after: Vec<Instruction> = p.body_instructions().cloned().collect();
        if after.len() != before.len() {
            add("body-length-changed".into(), String::new());
            return out;
        }
        let mut qmap: HashMap<QubitPlaceholder, Qubit> = HashMap::new();
        let mut fixed: HashSet<u64> = HashSet::new();
        let mut tmap: HashMap<TargetPlaceholder, Target> = HashMap::new();
        let mut tfixed: HashSet<String> = HashSet::new();
        for (x, y) in before.iter().zip(&after) {
            let kindname = format!("{x:?}").split('(').next().unwrap_or("").to_string();
            let (qb, qa) = (quals(x), quals(y));
            if qb.len() != qa.len() {
                add("shape-changed".into(), kindname.clone());
                continue;
            }
            for (b, a) in qb.iter().zip(qa.iter()) {
                match b {
                    Qubit::Fixed(i) => {
                        fixed.insert(*i);
                        if a != b {
                            add("fixed-qubit-changed".into(), format!("{kindname}: {b:?} became {a:?}"));
                        }
                    }
                    Qubit::Placeholder(ph) => {
                        let idx = m.qph.iter().position(|x| x == ph);
                        let should_resolve = match custom {
                            None => true,
                            Some(mask) => idx.map(|i| mask & (1 << i) != 0).unwrap_or(false),
                        };
                        match a {
                            Qubit::Placeholder(ph2) => {
                                if should_resolve {
                                    add(format!("qubit-placeholder-unresolved:{kindname}"), format!("a qubit placeholder in {kindname} is left unresolved"));
                                } else if ph2 != ph {
                                    add("placeholder-swapped".into(), kindname.clone());
                                }
                            }
                            Qubit::Fixed(v) => {
                                if !should_resolve {
                                    add(format!("custom-resolver-overreach:{kindname}"), format!("a placeholder the custom resolver returned None for was replaced by {v}"));
                                }
                                if let (Some(mask), Some(i)) = (custom, idx) {
                                    if mask & (1 << i) != 0 && *v != 7 + i as u64 {
                                        add("custom-resolver-value".into(), format!("resolved to {v}, resolver returned {}", 7 + i));
                                    }
                                }
                                if let Some(prev) = qmap.insert(ph.clone(), a.clone()) {
                                    if &prev != a {
                                        add("inconsistent-qubit-resolution".into(), format!("one placeholder resolved to {prev:?} and {a:?}"));
                                    }
                                }
                            }
                            _ => add("shape-changed".into(), kindname.clone()),
                        }
                    }
                    _ => {}
                }
            }
            if let (Some(tb), Some(ta)) = (targ(x), targ(y)) {
                match &tb {
                    Target::Fixed(s) => {
                        tfixed.insert(s.clone());
                        if ta != tb {
                            add("fixed-label-changed".into(), format!("{s}"));
                        }
                    }
                    Target::Placeholder(ph) => {
                        let idx = m.tph.iter().position(|x| x == ph);
                        let should_resolve = match custom {
                            None => true,
                            Some(mask) => idx.map(|i| mask & (4 << i) != 0).unwrap_or(false),
                        };
                        match &ta {
                            Target::Placeholder(_) => {
                                if should_resolve {
                                    add(format!("label-placeholder-unresolved:{kindname}"), format!("a label placeholder in {kindname} is left unresolved"));
                                }
                            }
                            Target::Fixed(v) => {
                                if !should_resolve {
                                    add(format!("custom-resolver-overreach:{kindname}"), format!("a label placeholder the custom resolver returned None for was replaced by {v}"));
                                }
                                if let (Some(mask), Some(i)) = (custom, idx) {
                                    if mask & (4 << i) != 0 && *v != format!("L{i}") {
                                        add("custom-resolver-value".into(), format!("label resolved to {v}, resolver returned L{i}"));
                                    }
                                }
                                if let Some(prev) = tmap.insert(ph.clone(), ta.clone()) {
                                    if prev != ta {
                                        add("inconsistent-label-resolution".into(), format!("one label placeholder resolved to {prev:?} and {ta:?}"));
                                    }
                                }
                            }
                        }
                    }
                }
            }
        }
        if custom.is_none() {
            let vals: Vec<&Qubit> = qmap.values().collect();
            let set: HashSet<&Qubit> = vals.iter().cloned().collect();
            if set.len() != vals.len() {
                add("distinct-qubit-placeholders-collide".into(), format!("{qmap:?}"));
            }
            for v in &vals {
                if let Qubit::Fixed(i) = v {
                    if fixed.contains(i) {
                        add("resolved-qubit-equals-fixed-qubit".into(), format!("a placeholder resolved to {i}, which the body already uses as a fixed qubit"));
                    }
                }
            }
            let tv: Vec<&Target> = tmap.values().collect();
            let ts: HashSet<&Target> = tv.iter().cloned().collect();
            if ts.len() != tv.len() {
                add("distinct-label-placeholders-collide".into(), format!("{tmap:?}"));
            }
            for v in &tv {
                if let Target::Fixed(s) = v {
                    if tfixed.contains(s) {
                        add("resolved-label-equals-existing-label".into(), format!("a label placeholder resolved to {s}, which already exists"));
                    }
                }
            }
            // after default resolution the body serializes
            if p.to_quil().is_err() {
                add("still-unserializable".into(), "to_quil fails after default resolution".into());
            }
        }
        out
    });
    match r {
        Ok(v) => v,
        Err(p) => vec![("panic".into(), p)],
    }
}

pub static C34: PropDef = PropDef {
    id: "C34",
    level: "exploration",
    engine: "sweep",
    rule: "every body of length <= 2 (thorough 3) over 86 instructions, and one step deeper over the label-only and a reduced qubit sub-menu: 13 qubit-bearing forms (gate, two-qubit modified gate, MEASURE, RESET, DELAY, FENCE, PULSE, CAPTURE, RAW-CAPTURE, SET-PHASE, SHIFT-FREQUENCY, SWAP-PHASES first / second frame) x qubit in {0, 1, P1, P2}, 5 forms holding both P1 and P2 in either order (gate, FENCE, DELAY, multi-qubit frame, SWAP-PHASES) and 4 label-bearing kinds (LABEL, JUMP, JUMP-WHEN, JUMP-UNLESS) x target in {a, a_0, a_1, T1(a), T2(a), T3(a_0)}; default resolution: nothing left, function, injective, avoids fixed qubits / labels of the body; custom resolvers: every subset of the 5 placeholders mapped -> exactly those replaced, with the returned values. non-trivial = body containing a placeholder",
    assumptions: &["independent syntactic walk over qubit- and label-bearing positions (mc/src/props/prog.rs quals/targ)"],
    run: |ctx| {
        let m = c34_menu();
        let l = ctx.tier.pick(2, 3);
        ctx.bound("menu", json!(m.items.iter().map(|x| x.0.clone()).collect::<Vec<_>>()));
        let is_ph = |m: &PhMenu, k: usize| ["(q2)", "(q3)", "(t2)", "(t3)", "(t4)", "PP("].iter().any(|t| m.items[k].0.contains(t));
        // sub-menus explored one step deeper: labels only, and a reduced qubit menu
        let label_items: Vec<usize> = (0..m.items.len()).filter(|k| m.items[*k].0.contains("(t")).collect();
        let qubit_items: Vec<usize> = (0..m.items.len()).filter(|k| ["Gate(", "Gate2(", "SetPhase(", "SwapPhases(", "SwapPhases2nd(", "Capture(", "RawCapture(", "Measure("].iter().any(|p| m.items[*k].0.starts_with(p))).collect();
        let all_items: Vec<usize> = (0..m.items.len()).collect();
        for (space, items, maxlen) in [("all", &all_items, l), ("labels", &label_items, l + 1), ("qubits", &qubit_items, l + 1)] {
            for len in 1..=maxlen {
                if space != "all" && len <= l {
                    continue; // already covered by the full menu
                }
                sequences(items.len(), len, |b0| {
                    let b: Vec<usize> = b0.iter().map(|k| items[*k]).collect();
                    let has_ph = b.iter().any(|k| is_ph(&m, *k));
                    let customs: Vec<Option<u32>> = if len <= 2 && has_ph { std::iter::once(None).chain((0..32).step_by(if len == 1 { 1 } else { 5 }).map(Some)).collect() } else { vec![None] };
                    for cu in customs {
                        if !ctx.take(|| json!({"body": b.iter().map(|k| m.items[*k].0.clone()).collect::<Vec<_>>(), "custom_mask": cu})) {
                            continue;
                        }
                        if has_ph {
                            ctx.nontrivial(&(&b, cu));
                        }
                        ctx.outcome(if cu.is_some() { "custom" } else { "default" });
                        for (clause, detail) in c34_check(&m, &b, cu) {
                            let fails = |s: &[usize]| c34_check(&m, s, cu).iter().any(|(c, _)| *c == clause);
                            let small = shrink_list(b.to_vec(), &fails);
                            ctx.report(viol(&clause, format!("C34:{clause}"), json!({"body": small.iter().map(|k| m.items[*k].0.clone()).collect::<Vec<_>>(), "custom_mask": cu}), format!("body {:?}: {detail}", b.iter().map(|k| m.items[*k].0.clone()).collect::<Vec<_>>())));
                        }
                    }
                });
            }
        }
    },
    replay: |c| {
        let m = c34_menu();
        let body: Vec<usize> = strs(&c["body"]).iter().filter_map(|t| m.items.iter().position(|x| &x.0 == t)).collect();
        let cu = c["custom_mask"].as_u64().map(|x| x as u32);
        c34_check(&m, &body, cu).into_iter().map(|(cl, d)| viol(&cl, format!("C34:{cl}"), c.clone(), d)).collect()
    },
    caps: (50, 3000),
};

// ------------------------------------------------------------------------------------------ C35

const C35_FRAMES: &[&str] = &["DEFFRAME 0 \"a\":\n    A: 1\n", "DEFFRAME 1 \"a\":\n    A: 1\n", "DEFFRAME 0 1 \"c\":\n    A: 1\n"];
const C35_HEAD: &str = "DEFWAVEFORM w:\n    1\nDEFWAVEFORM v:\n    1\nPRAGMA EXTERN f \"INTEGER\"\nPRAGMA EXTERN g \"INTEGER\"\nDECLARE ro INTEGER\nDEFGATE G AS PERMUTATION:\n    0, 1\nDEFCIRCUIT C:\n    X 0\n";
const C35_CALS: &[&str] = &["", "DEFCAL X 0:\n    PULSE 0 \"a\" w\n    CALL f ro\n", "DEFCAL X q:\n    NONBLOCKING PULSE q \"a\" v\n    FENCE q\n", "DEFCAL X 0:\n    Y 0\nDEFCAL Y 0:\n    DELAY 0 1.0\n", "DEFCAL MEASURE 0 dest:\n    CAPTURE 0 \"a\" v dest\nDEFCAL X 1:\n    NOP\n", "DEFCAL X 1:\n    PULSE 0 \"a\" w\n"];
const C35_BODY: &[&str] = &["X 0", "X 1", "RESET", "SWAP-PHASES 0 \"a\" 1 \"a\"", "SWAP-PHASES 0 1 \"c\" 0 \"a\"", "PULSE 1 \"a\" w", "FENCE", "FENCE 1", "DELAY 0 1 1.0", "CALL g ro", "SET-PHASE 0 1 \"c\" 1.0", "CAPTURE 0 \"a\" v ro", "RESET 0", "NOP", "Z 0", "MEASURE 0 ro", "PULSE 0 \"a\" flat(duration: 1.0, iq: 1)"];

fn c35_check(src: &str) -> (bool, Vec<(String, String)>) {
    let r = catch(|| {
        let mut out = vec![];
        let p = Program::from_str(src).expect("c35 program");
        let s = match p.simplify(&DefaultHandler) {
            Ok(s) => s,
            Err(e) => {
                return (false, if p.expand_calibrations().is_ok() { vec![("simplify-error".to_string(), format!("{e}"))] } else { vec![] });
            }
        };
        let e = p.expand_calibrations().expect("expands");
        let sb: Vec<&Instruction> = s.body_instructions().collect();
        let eb: Vec<&Instruction> = e.body_instructions().collect();
        if sb != eb {
            out.push(("body".to_string(), "simplified body differs from the calibration-expanded body".to_string()));
        }
        if !s.calibrations.is_empty() {
            out.push(("calibrations-remain".to_string(), format!("{} calibrations remain", s.calibrations.len())));
        }
        let mut used: BTreeSet<String> = BTreeSet::new();
        let mut wf: BTreeSet<String> = BTreeSet::new();
        let mut ex: BTreeSet<String> = BTreeSet::new();
        for i in e.body_instructions() {
            // frames *used* by the body, by the reference rules
            for f in ref_frames(&e, i).used {
                used.insert(f);
            }
            // a bare RESET has no rule in the statement of C26 (the reference says nothing about it): the
            // frames it uses are taken from the real handler asked about the *expanded* program, which is
            // what "used by that body" means
            if matches!(i, Instruction::Reset(Reset { qubit: None })) {
                if let Some(m) = DefaultHandler.matching_frames(&e, i) {
                    for f in m.used {
                        used.insert(fid(f));
                    }
                }
            }
            match i {
                Instruction::Pulse(pu) => {
                    wf.insert(pu.waveform.name.clone());
                }
                Instruction::Capture(c) => {
                    wf.insert(c.waveform.name.clone());
                }
                Instruction::Call(c) => {
                    ex.insert(c.name.clone());
                }
                _ => {}
            }
        }
        let got: BTreeSet<String> = s.frames.get_keys().iter().map(|f| fid(f)).collect();
        if got != used {
            out.push(("frames".to_string(), format!("frames kept {got:?}, used by the body {used:?}")));
        }
        for f in s.frames.get_keys() {
            if s.frames.get(f) != p.frames.get(f) {
                out.push(("frame-attributes".to_string(), format!("attributes of {} changed", fid(f))));
            }
        }
        let gw: BTreeSet<String> = s.waveforms.keys().cloned().collect();
        let ww: BTreeSet<String> = wf.iter().filter(|k| p.waveforms.contains_key(*k)).cloned().collect();
        if gw != ww {
            out.push(("waveforms".to_string(), format!("waveforms kept {gw:?}, invoked {ww:?}")));
        }
        let ge: BTreeSet<String> = s.extern_pragma_map.to_instructions().iter().map(|i| i.to_quil_or_debug()).collect();
        let we: BTreeSet<String> = p.extern_pragma_map.to_instructions().iter().filter(|i| ex.iter().any(|n| i.to_quil_or_debug().starts_with(&format!("PRAGMA EXTERN {n} ")))).map(|i| i.to_quil_or_debug()).collect();
        if ge != we {
            out.push(("externs".to_string(), format!("extern pragmas kept {ge:?}, called {we:?}")));
        }
        if s.memory_regions != p.memory_regions || s.gate_definitions != p.gate_definitions || s.circuits != p.circuits {
            out.push(("other-definitions-changed".to_string(), "declarations, gate definitions or circuits changed".to_string()));
        }
        // schedules
        let sa = ScheduledProgram::from_program(&s, &DefaultHandler);
        let sb2 = ScheduledProgram::from_program(&e, &DefaultHandler);
        match (sa, sb2) {
            (Ok(sa), Ok(sb2)) => {
                if sa.basic_blocks().len() != sb2.basic_blocks().len() {
                    out.push(("schedule".to_string(), "different number of blocks".to_string()));
                }
                for (x, y) in sa.basic_blocks().iter().zip(sb2.basic_blocks()) {
                    let (rx, ry) = (x.as_schedule_seconds(&s, &DefaultHandler), y.as_schedule_seconds(&e, &DefaultHandler));
                    match (rx, ry) {
                        (Ok(a), Ok(b)) => {
                            let mut ia = a.items().to_vec();
                            let mut ib = b.items().to_vec();
                            ia.sort_by_key(|i| i.instruction_index);
                            ib.sort_by_key(|i| i.instruction_index);
                            if ia != ib || a.duration() != b.duration() {
                                out.push(("schedule".to_string(), "block schedule of the simplified program differs from the expanded program's".to_string()));
                            }
                        }
                        (Err(_), Err(_)) => {}
                        _ => out.push(("schedule".to_string(), "a block schedule can be computed for only one of the two programs".to_string())),
                    }
                }
            }
            (Err(_), Err(_)) => {}
            _ => out.push(("schedule".to_string(), "only one of the two programs schedules".to_string())),
        }
        (true, out)
    });
    match r {
        Ok(x) => x,
        Err(p) => (false, vec![("panic".into(), p)]),
    }
}

pub static C35: PropDef = PropDef {
    id: "C35",
    level: "exploration",
    engine: "sweep",
    rule: "programs = every subset of 3 frames (qubits 0, 1, 0+1) x every subset of 2 waveform and 2 extern definitions (names left undefined stay referenced, like built-in template waveforms) x declaration, DEFGATE, DEFCIRCUIT x 6 calibration sets (none, fixed, variable, nested, measure, one whose body acts on another qubit than its gate) x every body of 1-2 (thorough 4, 3 when a definition is left out) instructions from a 17-item menu (calibrated and uncalibrated gates, pulses, fences, delay, CALL, frame update, SWAP-PHASES in two frame orders, capture, RESET with and without a qubit, measure): simplify() vs expand_calibrations() body, no calibrations, frames = frames used by that body (reference frame rules; for a bare RESET the real handler asked about the expanded program), waveforms invoked, externs called, other definitions unchanged, block schedules equal. non-trivial = program that simplifies",
    assumptions: &["frames used by an instruction = reference frame rules (ref_frames), checked against the code by C26"],
    run: |ctx| {
        let l = ctx.tier.pick(2, 4);
        for fmask in 0..8u32 {
          // which of the two waveforms / two externs are *defined* (bits: w, v, f, g); undefined names stay
          // referenced by the body, like built-in template waveforms
          for dmask in 0..16u32 {
            let head: String = C35_HEAD
                .split_inclusive('\n')
                .collect::<Vec<_>>()
                .chunks(1)
                .map(|c| c[0])
                .scan(false, |skip_next, line| {
                    // a DEFWAVEFORM takes two lines (header + samples)
                    if *skip_next {
                        *skip_next = false;
                        return Some("");
                    }
                    let drop = (line.starts_with("DEFWAVEFORM w:") && dmask & 1 == 0) || (line.starts_with("DEFWAVEFORM v:") && dmask & 2 == 0) || (line.starts_with("PRAGMA EXTERN f ") && dmask & 4 == 0) || (line.starts_with("PRAGMA EXTERN g ") && dmask & 8 == 0);
                    if drop && line.starts_with("DEFWAVEFORM") {
                        *skip_next = true;
                    }
                    Some(if drop { "" } else { line })
                })
                .collect();
            for cal in C35_CALS {
                // bodies of full length over the full definition set, one shorter otherwise (thorough)
                let l = if dmask == 15 || ctx.tier == Tier::Quick { l } else { l - 1 };
                for len in 1..=l {
                    sequences(C35_BODY.len(), len, |b| {
                        let mk = || {
                            let mut src = String::new();
                            for (k, f) in C35_FRAMES.iter().enumerate() {
                                if fmask & (1 << k) != 0 {
                                    src.push_str(f);
                                }
                            }
                            src.push_str(&head);
                            src.push_str(cal);
                            for k in b {
                                src.push_str(C35_BODY[*k]);
                                src.push('\n');
                            }
                            src
                        };
                        if !ctx.take(|| json!({"program": mk()})) {
                            return;
                        }
                        let src = mk();
                        let (ok, vs) = c35_check(&src);
                        if ok {
                            ctx.nontrivial(&src);
                        }
                        if ok {
                            let kept = Program::from_str(&src).ok().and_then(|p| p.simplify(&DefaultHandler).ok()).map(|s| (s.frames.len(), s.waveforms.len(), s.extern_pragma_map.to_instructions().len()));
                            ctx.outcome(&format!("kept(frames,waveforms,externs)={kept:?}"));
                        } else {
                            ctx.outcome("error");
                        }
                        for (clause, detail) in vs {
                            ctx.report(viol(&clause, format!("C35:{clause}"), json!({"program": src}), format!("{detail}; program: {}", src.replace('\n', "; "))));
                        }
                    });
                }
            }
          }
        }
    },
    replay: |c| c35_check(c["program"].as_str().unwrap_or("")).1.into_iter().map(|(cl, d)| viol(&cl, format!("C35:{cl}"), c.clone(), d)).collect(),
    caps: (50, 3000),
};
