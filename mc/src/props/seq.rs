//! C20 (gate-sequence expansion) and C21 (its source map) against a reference sequence expander.
use crate::engine::*;
use quil_rs::expression::*;
use quil_rs::instruction::*;
use quil_rs::program::{DefGateSequenceExpansion, ExpansionResult, InstructionIndex, ProgramError, SourceMap};
use quil_rs::quil::Quil;
use quil_rs::Program;
use serde_json::{json, Value};
use std::collections::{BTreeSet, HashMap};
use std::str::FromStr;

const A: &[&str] = &[
    "",
    "DEFGATE A(%p) a AS SEQUENCE:\n    RX(%p) a\n    B a\n",
    "DEFGATE A a b AS SEQUENCE:\n    B a\n    CNOT a b\n",
    "DEFGATE A a AS SEQUENCE:\n    A a\n",
    "DEFGATE A(%p) a AS SEQUENCE:\n    B(%p+1) a\n    B(%p) a\n",
    "DEFGATE A a b AS SEQUENCE:\n    H a\n",
    "DEFGATE A(%p) a b AS SEQUENCE:\n    CNOT b a\n    B(%p*%p) b\n    B(%p) a\n",
];
const B: &[&str] = &["", "DEFGATE B a AS SEQUENCE:\n    H a\n", "DEFGATE B a AS SEQUENCE:\n    C a\n    DAGGER H a\n", "DEFGATE B(%q) a AS SEQUENCE:\n    RZ(%q*2) a\n"];
const C: &[&str] = &["", "DEFGATE C a AS SEQUENCE:\n    A a\n", "DEFGATE C a AS SEQUENCE:\n    X a\n", "DEFGATE C a AS SEQUENCE:\n    E a\n    X a\n    E a\n"];
/// the matrix gate D, and the sequence gate E whose body is replaced by an EMPTY sequence through the API
/// after parsing (the parser wants at least one element; `DefGateSequence::try_new` accepts none)
const D: &str = "DEFGATE D AS MATRIX:\n    1, 0\n    0, 1\nDEFGATE E a AS SEQUENCE:\n    I a\n";
const INV: &[&str] = &["A 0", "A(0.5) 0", "A 0 1", "A(0.5) 0 1", "B 1", "B(1.5) 1", "C 0", "DAGGER B 0", "B q", "H 0", "D 0", "MEASURE 0", "E 2"];

#[derive(Debug, PartialEq, Eq, PartialOrd, Ord, Clone)]
enum E {
    Param,
    Mods,
    Cycle,
    QCount,
    NonFixed,
    Other,
}
fn subst(e: &Expression, m: &HashMap<String, Expression>) -> Expression {
    match e {
        Expression::Variable(v) => m.get(v).cloned().unwrap_or_else(|| e.clone()),
        Expression::Infix(i) => Expression::Infix(InfixExpression::new(subst(&i.left, m).into(), i.operator, subst(&i.right, m).into())),
        Expression::Prefix(p) => Expression::Prefix(PrefixExpression::new(p.operator, subst(&p.expression, m).into())),
        Expression::FunctionCall(f) => Expression::FunctionCall(FunctionCallExpression::new(f.function, subst(&f.expression, m).into())),
        o => o.clone(),
    }
}
#[derive(Debug, Clone)]
enum Node {
    Leaf(Instruction),
    Exp(String, Vec<Node>),
}
fn flat(n: &Node, out: &mut Vec<Instruction>) {
    match n {
        Node::Leaf(i) => out.push(i.clone()),
        Node::Exp(_, c) => {
            for x in c {
                flat(x, out)
            }
        }
    }
}
/// formals and elements of a sequence definition, recovered from its printed form (the fields
/// of DefGateSequence are private; printing of gates is covered by C02)
fn seq_parts(d: &GateDefinition) -> (Vec<String>, Vec<Gate>) {
    let txt = d.to_quil().expect("definition prints");
    let mut lines = txt.lines();
    let head = lines.next().unwrap();
    let h = head.trim_end_matches(':');
    let h = h.split(" AS ").next().unwrap();
    let after = if let Some(p) = h.find(')') { &h[p + 1..] } else { &h["DEFGATE ".len() + d.name.len()..] };
    let formals: Vec<String> = after.split_whitespace().map(|s| s.to_string()).collect();
    let gates: Vec<Gate> = lines
        .filter(|l| !l.trim().is_empty())
        .map(|l| match Instruction::from_str(l.trim()).expect("sequence element parses") {
            Instruction::Gate(g) => g,
            _ => panic!("sequence element is not a gate"),
        })
        .collect();
    (formals, gates)
}
fn rexp(i: &Instruction, defs: &indexmap::IndexMap<String, GateDefinition>, filt: &dyn Fn(&str) -> bool, stack: &mut Vec<String>) -> Result<Node, BTreeSet<E>> {
    if let Instruction::Gate(g) = i {
        if let Some(d) = defs.get(&g.name) {
            if let GateSpecification::Sequence(_) = &d.specification {
                if filt(&g.name) {
                    let (formals, gates) = seq_parts(d);
                    let mut errs = BTreeSet::new();
                    if d.parameters.len() != g.parameters.len() {
                        errs.insert(E::Param);
                    }
                    if !g.modifiers.is_empty() {
                        errs.insert(E::Mods);
                    }
                    if stack.contains(&g.name) {
                        errs.insert(E::Cycle);
                    }
                    if g.qubits.len() != formals.len() {
                        errs.insert(E::QCount);
                    } else if g.qubits.iter().any(|q| !matches!(q, Qubit::Fixed(_))) {
                        errs.insert(E::NonFixed);
                    }
                    if !errs.is_empty() {
                        return Err(errs);
                    }
                    let pm: HashMap<String, Expression> = d.parameters.iter().cloned().zip(g.parameters.iter().cloned()).collect();
                    let qm: HashMap<String, Qubit> = formals.iter().cloned().zip(g.qubits.iter().cloned()).collect();
                    stack.push(g.name.clone());
                    let mut kids = vec![];
                    for bg in gates {
                        let ng = Gate {
                            name: bg.name.clone(),
                            parameters: bg.parameters.iter().map(|e| subst(e, &pm)).collect(),
                            qubits: bg.qubits.iter().map(|q| match q { Qubit::Variable(v) => qm.get(v).cloned().unwrap_or_else(|| q.clone()), o => o.clone() }).collect(),
                            modifiers: bg.modifiers.clone(),
                        };
                        match rexp(&Instruction::Gate(ng), defs, filt, stack) {
                            Ok(n) => kids.push(n),
                            Err(e) => {
                                stack.pop();
                                return Err(e);
                            }
                        }
                    }
                    stack.pop();
                    return Ok(Node::Exp(g.name.clone(), kids));
                }
            }
        }
    }
    Ok(Node::Leaf(i.clone()))
}
fn classify(e: &ProgramError) -> E {
    let s = format!("{e:?}");
    if s.contains("ParameterCount") {
        E::Param
    } else if s.contains("GateModifiersUnsupported") {
        E::Mods
    } else if s.contains("Cyclic") {
        E::Cycle
    } else if s.contains("QubitCount") {
        E::QCount
    } else if s.contains("NonFixedQubit") {
        E::NonFixed
    } else {
        E::Other
    }
}
type SMap<'a> = SourceMap<InstructionIndex, ExpansionResult<DefGateSequenceExpansion<'a>>>;
fn check_map(sm: &SMap<'_>, nodes: &[Node], out: &[Instruction], lvl: &str, add: &mut dyn FnMut(String, String)) {
    let es = sm.entries();
    if es.len() != nodes.len() {
        add(format!("{lvl}:entry-count"), format!("{} entries for {} source instructions", es.len(), nodes.len()));
        return;
    }
    let mut pos = 0usize;
    for (k, (en, n)) in es.iter().zip(nodes).enumerate() {
        if en.source_location().0 != k {
            add(format!("{lvl}:source-index"), format!("entry {k} has source index {}", en.source_location().0));
        }
        match (en.target_location(), n) {
            (ExpansionResult::Unmodified(i), Node::Leaf(ins)) => {
                if i.0 != pos || out.get(pos) != Some(ins) {
                    add(format!("{lvl}:unmodified-target"), format!("Unmodified({}) for source {k}, the instruction is at {pos}", i.0));
                }
                pos += 1;
            }
            (ExpansionResult::Rewritten(r), Node::Exp(_, kids)) => {
                let mut f = vec![];
                for x in kids {
                    flat(x, &mut f);
                }
                let rg = r.range();
                if rg.start.0 != pos || rg.end.0 != pos + f.len() {
                    add(format!("{lvl}:range"), format!("range {}..{} for source {k}, its gates occupy {}..{}", rg.start.0, rg.end.0, pos, pos + f.len()));
                }
                if out.get(pos..pos + f.len()) != Some(&f[..]) {
                    add(format!("{lvl}:range-content"), format!("source {k}: the output in its range is not the gates the invocation produced"));
                }
                check_map(r.nested_expansions(), kids, &f, "nested", add);
                pos += f.len();
            }
            _ => add(format!("{lvl}:kind-mismatch"), format!("source {k}: unmodified / rewritten does not match whether it was expanded")),
        }
    }
    if pos != out.len() {
        add(format!("{lvl}:coverage"), format!("entries cover {pos} instructions of {}", out.len()));
    }
}

#[derive(Clone, Copy, PartialEq)]
enum Which {
    C20,
    C21,
}

fn seq_check(which: Which, src: &str, mask: u32) -> (bool, Vec<(String, String)>) {
    let mut out = vec![];
    let Ok(mut p) = Program::from_str(src) else { return (false, out) };
    if p.gate_definitions.contains_key("E") {
        if let Ok(empty) = DefGateSequence::try_new(vec!["a".to_string()], vec![]) {
            if let Ok(def) = GateDefinition::new("E".to_string(), vec![], GateSpecification::Sequence(empty)) {
                p.gate_definitions.insert("E".to_string(), def);
            }
        }
    }
    let filt = move |name: &str| match name {
        "A" => mask & 1 != 0,
        "B" => mask & 2 != 0,
        "C" => mask & 4 != 0,
        _ => true,
    };
    let r = catch(|| {
        let mut out: Vec<(String, String)> = vec![];
        let mut nontrivial = false;
        let mut stack = vec![];
        let mut nodes = vec![];
        let mut rerr = None;
        for i in p.body_instructions() {
            match rexp(i, &p.gate_definitions, &filt, &mut stack) {
                Ok(nd) => nodes.push(nd),
                Err(e) => {
                    rerr = Some(e);
                    break;
                }
            }
        }
        let r1 = p.clone().expand_defgate_sequences(filt);
        let r2 = p.expand_defgate_sequences_with_source_map(filt);
        match (&rerr, &r1, &r2) {
            (Some(es), Err(e1), Err(e2)) => {
                if which == Which::C20 && !es.contains(&classify(e1)) {
                    out.push(("error-class".into(), format!("fails with {:?}, applicable error classes are {:?}", classify(e1), es)));
                }
                if which == Which::C21 && classify(e1) != classify(e2) {
                    out.push(("entry-points-differ".into(), "the two entry points fail with different errors".into()));
                }
            }
            (None, Ok(q1), Ok((q2, sm))) => {
                let mut exp = vec![];
                for nd in &nodes {
                    flat(nd, &mut exp);
                }
                let got: Vec<Instruction> = q1.body_instructions().cloned().collect();
                nontrivial = nodes.iter().any(|x| matches!(x, Node::Exp(..)));
                if which == Which::C20 {
                    if got != exp {
                        let k = got.iter().zip(&exp).position(|(a, b)| a != b).unwrap_or(got.len().min(exp.len()));
                        out.push(("body".into(), format!("expanded body differs from the reference at {k}: `{}` vs `{}`", got.get(k).map(|i| i.to_quil_or_debug()).unwrap_or_default(), exp.get(k).map(|i| i.to_quil_or_debug()).unwrap_or_default())));
                    }
                    // kept definitions = non-sequence ∪ unselected ∪ reachable from unselected
                    let seqs: Vec<&String> = p.gate_definitions.iter().filter(|(_, d)| matches!(d.specification, GateSpecification::Sequence(_))).map(|(k, _)| k).collect();
                    let calls = |nm: &str| -> Vec<String> { seq_parts(&p.gate_definitions[nm]).1.into_iter().map(|g| g.name).collect() };
                    let mut keep: BTreeSet<String> = seqs.iter().filter(|s| !filt(s)).map(|s| s.to_string()).collect();
                    loop {
                        let mut ch = false;
                        for k in keep.clone() {
                            for c in calls(&k) {
                                if seqs.iter().any(|s| **s == c) && keep.insert(c) {
                                    ch = true;
                                }
                            }
                        }
                        if !ch {
                            break;
                        }
                    }
                    let want: BTreeSet<String> = p.gate_definitions.keys().filter(|k| !seqs.contains(k) || keep.contains(*k)).cloned().collect();
                    let have: BTreeSet<String> = q1.gate_definitions.keys().cloned().collect();
                    if want != have {
                        out.push(("kept-definitions".into(), format!("definitions kept {:?}, expected {:?}", have, want)));
                    }
                    for k in &have {
                        if q1.gate_definitions.get(k) != p.gate_definitions.get(k) {
                            out.push(("definition-changed".into(), format!("definition {k} was altered")));
                        }
                    }
                    // everything else about the program is unchanged
                    if q1.memory_regions != p.memory_regions || q1.calibrations != p.calibrations || q1.frames != p.frames || q1.waveforms != p.waveforms || q1.circuits != p.circuits {
                        out.push(("other-definitions-changed".into(), "declarations / calibrations / frames / waveforms / circuits changed".into()));
                    }
                }
                if which == Which::C21 {
                    if q1 != q2 {
                        out.push(("entry-points-differ".into(), "the two entry points give different programs".into()));
                    }
                    if got == exp {
                        let mut add = |c: String, d: String| out.push((c, d));
                        check_map(sm, &nodes, &got, "top", &mut add);
                    }
                }
            }
            (Some(es), Ok(_), _) => {
                if which == Which::C20 {
                    out.push(("missing-error".into(), format!("expansion succeeds, expected one of {:?}", es)))
                }
            }
            (None, Err(e), _) => {
                if which == Which::C20 {
                    out.push(("unexpected-error".into(), format!("expansion fails with {:?}", classify(e))))
                }
            }
            _ => {
                if which == Which::C21 {
                    out.push(("entry-points-differ".into(), "one entry point fails, the other succeeds".into()))
                }
            }
        }
        (nontrivial, out)
    });
    match r {
        Ok(x) => x,
        Err(pan) => {
            out.push(("panic".into(), pan));
            (false, out)
        }
    }
}

fn seq_run(ctx: &mut Ctx, id: &'static str, which: Which) {
    let mut bodies: Vec<String> = vec![];
    for a in INV {
        bodies.push(format!("{a}\n"));
        for b in INV {
            bodies.push(format!("{a}\n{b}\n"));
        }
    }
    if ctx.tier == Tier::Thorough {
        for a in INV {
            for b in INV {
                for c in INV {
                    bodies.push(format!("{a}\n{b}\n{c}\n"));
                }
            }
        }
    }
    ctx.bound("bodies", json!(bodies.len()));
    for a in A {
        for b in B {
            for c in C {
                for body in &bodies {
                    let src = format!("{a}{b}{c}{D}{body}");
                    for mask in 0..8u32 {
                        if !ctx.take(|| json!({"program": src, "filter_mask": mask})) {
                            continue;
                        }
                        let (nt, vs) = seq_check(which, &src, mask);
                        if nt {
                            ctx.nontrivial(&(&src, mask));
                        }
                        ctx.outcome(if nt { "expanded" } else { "no-expansion-or-error" });
                        let mut seen = BTreeSet::new();
                        for (clause, detail) in vs {
                            if seen.insert(clause.clone()) {
                                ctx.report(viol(&clause, format!("{id}:{clause}:A{}B{}C{}", A.iter().position(|x| x == a).unwrap(), B.iter().position(|x| x == b).unwrap(), C.iter().position(|x| x == c).unwrap()), json!({"program": src, "filter_mask": mask}), format!("{detail}; filter mask {mask:03b} (A,B,C selected); program: {}", src.replace('\n', "; "))));
                            }
                        }
                    }
                }
            }
        }
    }
}
fn seq_replay(id: &str, which: Which, c: &Value) -> Vec<Viol> {
    let src = c["program"].as_str().unwrap_or("");
    let mask = c["filter_mask"].as_u64().unwrap_or(0) as u32;
    seq_check(which, src, mask).1.into_iter().map(|(cl, d)| viol(&cl, format!("{id}:{cl}:replay"), c.clone(), d)).collect()
}

const ASSUME: &[&str] = &["reference sequence expander mc/src/props/seq.rs rexp(); a sequence definition's formals and elements are recovered from its printed form", "when several error conditions apply to one invocation any applicable class is accepted"];

pub static C20: PropDef = PropDef {
    id: "C20",
    level: "exploration",
    engine: "sweep",
    rule: "programs = one of 7 definitions of sequence gate A x 4 of B x 4 of C (nesting, a self cycle, a cycle through C, parameter passing, an unused formal qubit, an inner call that permutes the formal qubits) + a matrix DEFGATE + a sequence gate E with an EMPTY body (built through the API; always selected; also called from inside C), x every body of 1-2 (thorough 3) invocations from a 13-item menu (right / wrong arity, wrong parameter count, modifier on a sequence gate, variable qubit, plain gates, MEASURE) x all 8 selection filters over {A,B,C}: result body / error class, kept definitions and untouched rest compared with the reference. non-trivial = case with at least one real expansion",
    assumptions: ASSUME,
    run: |ctx| seq_run(ctx, "C20", Which::C20),
    replay: |c| seq_replay("C20", Which::C20, c),
    caps: (50, 3000),
};
pub static C21: PropDef = PropDef {
    id: "C21",
    level: "exploration",
    engine: "sweep",
    rule: "the C20 program x filter space: both entry points give equal programs (or fail alike); exactly one source-map entry per source instruction in order; Unmodified points at the identical instruction; Rewritten ranges contiguous and equal to the gates the invocation produced; nested maps relative to the parent and tiling it. non-trivial = case with at least one real expansion",
    assumptions: ASSUME,
    run: |ctx| seq_run(ctx, "C21", Which::C21),
    replay: |c| seq_replay("C21", Which::C21, c),
    caps: (50, 3000),
};
