//! C29 (gate depth), C30 (type checking), C32 (built-in waveforms).
use crate::engine::*;
use crate::ex::*;
use crate::util::*;
use num_complex::Complex64 as C;
use quil_rs::instruction::*;
use quil_rs::program::analysis::{BasicBlock, QubitGraph};
use quil_rs::program::type_check::type_check;
use quil_rs::units::Cycles;
use quil_rs::waveform::{builtin::*, sampling::IqSamples, Concrete, Partial};
use quil_rs::Program;
use serde_json::{json, Value};
use std::collections::HashMap;
use std::str::FromStr;

// ------------------------------------------------------------------------------------------ C29

const C29_MENU: &[&str] = &[
    "X 0", "X 1", "X 2", "H 3", "CNOT 0 1", "CNOT 1 2", "CZ 2 3", "CZ 0 3", "CNOT 1 0", "CZ 0 2", "CCNOT 0 1 2", "CCNOT 1 2 3", "MEASURE 0 ro", "MEASURE 2 ro", "MEASURE 3 ro", "MOVE ro 1", "RX(ro) 1", "CNOT 3 1", "MEASURE 1 ro", "NOP", "CONTROLLED X 2 3", "DAGGER H 0", "MEASURE 1", "FORKED RX(0.5, ro) 3 2",
];

fn c29_check(seq: &[usize], parsed: &[Instruction]) -> Vec<(String, String)> {
    let r = catch(|| {
        let mut out = vec![];
        let mut p = Program::new();
        p.add_instruction(Instruction::from_str("DECLARE ro BIT").unwrap());
        for k in seq {
            p.add_instruction(parsed[*k].clone());
        }
        let block: BasicBlock = match (&p).try_into() {
            Ok(b) => b,
            Err(_) => return out,
        };
        let g = match QubitGraph::try_from_basic_block(&block, &DefaultHandler) {
            Ok(g) => g,
            Err(e) => return vec![("graph-error".to_string(), format!("{e:?}"))],
        };
        for k in 0..=4usize {
            let got = g.gate_depth(k);
            // reference DP: depth[i] = [qualifies(i)] + max depth[last instruction on a shared qubit]
            let mut last: HashMap<Qubit, usize> = HashMap::new();
            let mut depth = vec![0usize; seq.len()];
            let mut best = 0;
            for (i, idx) in seq.iter().enumerate() {
                let ins = &parsed[*idx];
                let qs: Vec<Qubit> = match ins {
                    Instruction::Gate(g) => g.qubits.clone(),
                    Instruction::Measurement(m) => vec![m.qubit.clone()],
                    _ => vec![],
                };
                let mut d = 0;
                for q in &qs {
                    if let Some(j) = last.get(q) {
                        d = d.max(depth[*j]);
                    }
                }
                let qual = if let Instruction::Gate(gt) = ins { gt.qubits.len() >= k } else { false };
                depth[i] = d + usize::from(qual);
                best = best.max(depth[i]);
                for q in qs {
                    last.insert(q, i);
                }
            }
            if got != best {
                out.push((format!("depth:k{k}"), format!("gate_depth({k}) = {got}, longest chain of qualifying gates = {best}")));
            }
        }
        out
    });
    match r {
        Ok(v) => v,
        Err(p) => vec![("panic".into(), p)],
    }
}

pub static C29: PropDef = PropDef {
    id: "C29",
    level: "exploration",
    engine: "sweep",
    rule: "every sequence of length <= 4 (thorough 6) over a 24-item menu on 4 qubits (1-qubit gates, 2-qubit gates on 7 ordered pairs, two 3-qubit gates, MEASURE on each qubit and one without target, a classical instruction, a parameterised gate reading memory, NOP, three modified gates: CONTROLLED X on two qubits, DAGGER H, FORKED RX with two parameters on two qubits) x thresholds k = 0..4: QubitGraph::gate_depth(k) vs a longest-chain dynamic program. non-trivial = sequence with at least two instructions sharing a qubit",
    assumptions: &["reference: depth[i] = [gate on >= k qubits] + max depth over the previous instruction on each of its qubits; no gate repeats a qubit"],
    run: |ctx| {
        let parsed: Vec<Instruction> = C29_MENU.iter().map(|s| Instruction::from_str(s).unwrap()).collect();
        let l = ctx.tier.pick(4, 6);
        for len in 1..=l {
            sequences(C29_MENU.len(), len, |s| {
                if !ctx.take(|| json!({"body": s.iter().map(|k| C29_MENU[*k]).collect::<Vec<_>>()})) {
                    return;
                }
                ctx.evals += 4; // five thresholds per sequence
                if len >= 2 {
                    ctx.nontrivial(s);
                }
                ctx.outcome(&format!("len{len}"));
                for (clause, detail) in c29_check(s, &parsed) {
                    let fails = |x: &[usize]| c29_check(x, &parsed).iter().any(|(c, _)| *c == clause);
                    let small = shrink_idx(s.to_vec(), &fails);
                    ctx.report(viol(&clause, format!("C29:{clause}:{}", small.iter().map(|k| C29_MENU[*k]).collect::<Vec<_>>().join("; ")), json!({"body": small.iter().map(|k| C29_MENU[*k]).collect::<Vec<_>>()}), format!("{:?}: {detail}", s.iter().map(|k| C29_MENU[*k]).collect::<Vec<_>>())));
                }
            });
        }
    },
    replay: |c| {
        let parsed: Vec<Instruction> = C29_MENU.iter().map(|s| Instruction::from_str(s).unwrap()).collect();
        let s: Vec<usize> = strs(&c["body"]).iter().filter_map(|t| C29_MENU.iter().position(|m| m == t)).collect();
        c29_check(&s, &parsed).into_iter().map(|(cl, d)| viol(&cl, format!("C29:{cl}:replay"), c.clone(), d)).collect()
    },
    caps: (50, 3000),
};

// ------------------------------------------------------------------------------------------ C30

const C30_DECL: &str = "DECLARE r REAL\nDECLARE n INTEGER\nDECLARE b BIT\nDECLARE o OCTET\n";

/// the recursive "real-valued" predicate of the statement
fn ref_real(e: &Ex) -> bool {
    match e {
        Ex::Addr(n, _) => n == "r" || n == "rr",
        Ex::Num(_, i) => i.abs() <= f64::EPSILON,
        Ex::Pi => true,
        Ex::Var(_) => false,
        Ex::Fn(_, x) | Ex::Pre(_, x) => ref_real(x),
        Ex::In(_, l, r) => ref_real(l) && ref_real(r),
    }
}
fn c30_leaves() -> Vec<Ex> {
    vec![Ex::Addr("r".into(), 0), Ex::Addr("n".into(), 0), Ex::Addr("u".into(), 0), Ex::Var("v".into()), Ex::Num(1.0, 0.0), Ex::Num(0.0, 1.0), Ex::Pi]
}

fn c30_menu() -> Vec<String> {
    let mut menu: Vec<String> = vec![];
    for d in ["r", "n", "b", "o", "u"] {
        for s in ["r", "n", "b", "o", "u", "1", "1.5"] {
            menu.push(format!("ADD {d} {s}"));
            menu.push(format!("MOVE {d} {s}"));
        }
        for s in ["n", "b", "r", "1"] {
            menu.push(format!("AND {d} {s}"));
        }
        menu.push(format!("NEG {d}"));
        menu.push(format!("NOT {d}"));
        menu.push(format!("EXCHANGE {d} n"));
    }
    for d in ["b", "n"] {
        for l in ["r", "n", "u"] {
            for rr in ["r", "n", "1", "1.5", "u"] {
                menu.push(format!("EQ {d} {l} {rr}"));
            }
        }
    }
    for a in ["r", "n", "b", "o"] {
        for b2 in ["r", "n", "b", "o", "u"] {
            menu.push(format!("EXCHANGE {a} {b2}"));
            menu.push(format!("CONVERT {a} {b2}"));
            menu.push(format!("LOAD {a} {b2} n"));
            menu.push(format!("STORE {a} n {b2}"));
        }
        menu.push(format!("LOAD r r {a}"));
        menu.push(format!("STORE r {a} 1.0"));
        menu.push(format!("JUMP-UNLESS @a {a}"));
        menu.push(format!("MEASURE 0 {a}"));
    }
    for s in ["LOAD r r n", "LOAD r n n", "LOAD n r b", "STORE r n 1.0", "STORE r n 1", "STORE n n r", "CONVERT r n", "X 0", "JUMP-WHEN @a r", "RX(r) 0", "RX(n*%v) 0"] {
        menu.push(s.to_string());
    }
    menu
}

fn tc(text: &str) -> Option<bool> {
    let p = Program::from_str(text).ok()?;
    Some(type_check(&p).is_ok())
}

fn c30_pair_check(menu: &[String], single: &[bool], seq: &[usize]) -> Vec<(String, String)> {
    let r = catch(|| {
        let mut out = vec![];
        let body: Vec<&str> = seq.iter().map(|k| menu[*k].as_str()).collect();
        let src = format!("{C30_DECL}{}\n", body.join("\n"));
        let Some(ok) = tc(&src) else { return out };
        let want = seq.iter().all(|k| single[*k]);
        if ok != want {
            out.push(("per-instruction".to_string(), format!("program verdict {ok}, but each instruction alone gives {:?}", seq.iter().map(|k| single[*k]).collect::<Vec<_>>())));
        }
        // reordering and duplication
        let mut rev = body.clone();
        rev.reverse();
        let mut dup = body.clone();
        dup.extend(body.iter().cloned());
        for (name, b2) in [("reordering", rev), ("duplication", dup)] {
            if tc(&format!("{C30_DECL}{}\n", b2.join("\n"))) != Some(ok) {
                out.push((format!("invariance:{name}"), format!("verdict changes under {name}")));
            }
        }
        // consistent renaming r -> rr, n -> nn
        let ren = |s: &str| -> String {
            s.split(' ')
                .map(|w| {
                    let base = w.trim_end_matches(')').trim_start_matches("RX(");
                    match base {
                        "r" => w.replace('r', "rr"),
                        "n" => w.replace('n', "nn"),
                        _ if w.starts_with("RX(n*") => w.replace("RX(n*", "RX(nn*"),
                        _ => w.to_string(),
                    }
                })
                .collect::<Vec<_>>()
                .join(" ")
        };
        let decl2 = "DECLARE rr REAL\nDECLARE nn INTEGER\nDECLARE b BIT\nDECLARE o OCTET\n";
        let b3: Vec<String> = body.iter().map(|s| ren(s)).collect();
        if let Some(ok3) = tc(&format!("{decl2}{}\n", b3.join("\n"))) {
            if ok3 != ok {
                out.push(("invariance:renaming".to_string(), format!("verdict {ok} becomes {ok3} after renaming r->rr, n->nn: {:?}", b3)));
            }
        }
        out
    });
    match r {
        Ok(v) => v,
        Err(p) => vec![("panic".into(), p)],
    }
}

fn c30_expr_check(op: &str, e: &Ex) -> Vec<(String, String)> {
    let r = catch(|| {
        let mut out = vec![];
        let src = format!("{C30_DECL}{op} 0 \"f\" {}\n", e.source());
        let Some(ok) = tc(&src) else { return out };
        let want = {
            // every referenced region must be declared REAL; undeclared u and INTEGER n are not real
            ref_real(e)
        };
        if ok != want {
            out.push(("real-valued".to_string(), format!("`{op} 0 \"f\" {}`: type check {}, the expression {} real-valued", e.source(), if ok { "accepts" } else { "rejects" }, if want { "is" } else { "is not" })));
        }
        out
    });
    match r {
        Ok(v) => v,
        Err(p) => vec![("panic".into(), p)],
    }
}

pub static C30: PropDef = PropDef {
    id: "C30",
    level: "exploration",
    engine: "sweep",
    rule: "declared regions r:REAL n:INTEGER b:BIT o:OCTET, undeclared u. (a) every program of 1-2 instructions from a ~250-instruction typed menu (thorough: also every program of 3 over every second menu item) (every classical operator with compatible and incompatible operand types, comparisons, LOAD/STORE/CONVERT/EXCHANGE, gates): verdict == conjunction of single-instruction verdicts; invariant under reordering, duplication and the renaming r->rr, n->nn. (b) SET-PHASE / SET-SCALE / SET-FREQUENCY / SHIFT-PHASE / SHIFT-FREQUENCY x every expression of depth <= 2 over leaves {r, n, u, %v, 1, 1i, pi}: accepted iff the expression is real-valued by the recursive rule. non-trivial = program with an instruction that fails alone, or expression containing a non-real leaf",
    assumptions: &["reference predicate ref_real(): declared REAL memory, real numbers or pi, combined by any operator / function, no variables"],
    run: |ctx| {
        let menu = c30_menu();
        let single: Vec<bool> = menu.iter().map(|m| tc(&format!("{C30_DECL}{m}\n")).unwrap_or_else(|| panic!("menu item does not parse: {m}"))).collect();
        ctx.bound("menu_size", json!(menu.len()));
        ctx.bound("menu_ok_alone", json!(single.iter().filter(|x| **x).count()));
        let l = ctx.tier.pick(2, 3);
        for len in 1..=l {
            let step = if len == 3 { 2 } else { 1 };
            let idxs: Vec<usize> = (0..menu.len()).step_by(step).collect();
            sequences(idxs.len(), len, |s0| {
                let s: Vec<usize> = s0.iter().map(|k| idxs[*k]).collect();
                if !ctx.take(|| json!({"body": s.iter().map(|k| menu[*k].clone()).collect::<Vec<_>>()})) {
                    return;
                }
                if s.iter().any(|k| !single[*k]) {
                    ctx.nontrivial(&s);
                }
                ctx.outcome("program");
                for (clause, detail) in c30_pair_check(&menu, &single, &s) {
                    let kinds: Vec<&str> = s.iter().map(|k| menu[*k].split(' ').next().unwrap()).collect();
                    ctx.report(viol(&clause, format!("C30:{clause}:{}", kinds.join("+")), json!({"body": s.iter().map(|k| menu[*k].clone()).collect::<Vec<_>>()}), format!("{:?}: {detail}", s.iter().map(|k| &menu[*k]).collect::<Vec<_>>())));
                }
            });
        }
        // (b) expressions
        let sp = Space::new(c30_leaves(), vec![0, 1, 2, 3, 4], vec![0, 1], vec![0, 1, 2, 3, 4]);
        let ops = ["SET-PHASE", "SET-SCALE", "SET-FREQUENCY", "SHIFT-PHASE", "SHIFT-FREQUENCY"];
        let mut shrinks = 0;
        let mut visit = |ctx: &mut Ctx, op: &str, e: &Ex| {
            if !ref_real(e) {
                ctx.nontrivial(&(op, e.show()));
            }
            ctx.outcome("expression");
            for (clause, detail) in c30_expr_check(op, e) {
                let small = if shrinks < 200 {
                    shrinks += 1;
                    shrink(e.clone(), &|x: &Ex| c30_expr_check(op, x).iter().any(|(c, _)| *c == clause))
                } else {
                    e.clone()
                };
                ctx.report(viol(&clause, format!("C30:{clause}:{}", small.show()), json!({"op": op, "expr": small}), detail));
            }
        };
        for op in ops {
            for e in &sp.all1 {
                if ctx.take(|| json!({"op": op, "expr": e.show()})) {
                    visit(ctx, op, e);
                }
            }
        }
        // depth 2: SET-PHASE and SHIFT-FREQUENCY over every tree (thorough), every 5th tree (quick)
        let step = ctx.tier.pick(5usize, 1);
        let mut k = 0usize;
        let mut todo = vec![];
        sp.depth2(|d| {
            k += 1;
            if k % step == 0 {
                for op in ["SET-PHASE", "SHIFT-FREQUENCY"] {
                    if ctx.take(|| json!({"op": op, "expr": sp.build(&d).show()})) {
                        todo.push((op, d));
                    }
                }
            }
        });
        for (op, d) in todo {
            visit(ctx, op, &sp.build(&d));
        }
    },
    replay: |c| {
        if let Some(op) = c["op"].as_str() {
            let Ok(e) = serde_json::from_value::<Ex>(c["expr"].clone()) else { return vec![] };
            return c30_expr_check(op, &e).into_iter().map(|(cl, d)| viol(&cl, format!("C30:{cl}:{}", e.show()), c.clone(), d)).collect();
        }
        let menu = c30_menu();
        let single: Vec<bool> = menu.iter().map(|m| tc(&format!("{C30_DECL}{m}\n")).unwrap_or(false)).collect();
        let s: Vec<usize> = strs(&c["body"]).iter().filter_map(|t| menu.iter().position(|m| m == t)).collect();
        c30_pair_check(&menu, &single, &s).into_iter().map(|(cl, d)| viol(&cl, format!("C30:{cl}:replay"), c.clone(), d)).collect()
    },
    caps: (50, 3000),
};

// ------------------------------------------------------------------------------------------ C32

fn vals(s: IqSamples<C>) -> Vec<C> {
    s.into_iq_values()
}
fn close(a: &[C], b: &[C], tol: f64) -> bool {
    a.len() == b.len() && a.iter().zip(b).all(|(x, y)| (x - y).norm() <= tol * (1.0 + x.norm()))
}

fn kinds(rate: f64, pl: f64, pr: f64) -> Vec<(&'static str, BuiltinWaveform<Concrete>, bool)> {
    vec![
        ("flat", Flat { iq: C::new(0.5, -0.25) }.into(), false),
        ("gaussian", Gaussian { fwhm: 2.0 / rate, t0: 1.5 / rate }.into(), false),
        ("drag_gaussian", DragGaussian { fwhm: 2.0 / rate, t0: 1.5 / rate, anh: -2e8, alpha: -1.5 }.into(), false),
        ("erf_square", ErfSquare { risetime: 1.0 / rate, pad_left: pl, pad_right: pr }.into(), true),
        ("hermite_gaussian", HermiteGaussian { fwhm: 2.0 / rate, t0: 1.5 / rate, anh: -2e8, alpha: -1.5, second_order_hrm_coeff: 0.9 }.into(), false),
        ("raised_cosine(0)", RaisedCosine { rolloff: 0.0, pad_left: pl, pad_right: pr }.into(), true),
        ("raised_cosine(0.5)", RaisedCosine { rolloff: 0.5, pad_left: pl, pad_right: pr }.into(), true),
        ("raised_cosine(1)", RaisedCosine { rolloff: 1.0, pad_left: pl, pad_right: pr }.into(), true),
        ("boxcar_kernel", BoxcarKernel.into(), false),
    ]
}

const RATES: &[f64] = &[1.0, 4.0, 1e9];
const PADS: &[(f64, f64)] = &[(0.0, 0.0), (0.3, 1.0), (1.0, 0.0), (2.0, 0.3), (0.375, 0.375), (0.3, 0.6), (1.5, 0.5), (0.75, 2.25)];

fn c32_check(ri: usize, k: u32, pi: usize, wi: usize, thorough: bool) -> (bool, Vec<(String, String)>) {
    let rate = RATES[ri];
    let duration = k as f64 / rate;
    let (pl, pr) = (PADS[pi].0 / rate, PADS[pi].1 / rate);
    let r = catch(|| {
        let mut out: Vec<(String, String)> = vec![];
        let ks = kinds(rate, pl, pr);
        let (name, w, padded) = &ks[wi];
        let mut add = |c: &str, d: String| {
            if !out.iter().any(|(x, _)| x == c) {
                out.push((c.to_string(), format!("{name} duration={k}/{rate} pads=({},{})/rate: {d}", PADS[pi].0, PADS[pi].1)))
            }
        };
        // detuning: absent, explicitly zero (must equal absent), and a quarter of the sample rate; every
        // metamorphic clause below is relative to the unit-scale, zero-phase samples *at the same detuning*
        let mut undetuned: Option<Vec<C>> = None;
        for det in [None, Some(0.0), Some(0.25 * rate)] {
            let base = CommonBuiltinParameters::<Concrete> { duration, scale: None, phase: None, detuning: det };
            let s0 = match w.iq_values_at_sample_rate(base, rate) {
                Err(e) => {
                    add("aligned-duration-rejected", format!("{e:?}"));
                    return (false, out);
                }
                Ok(s) => vals(s),
            };
            let want = ((duration * rate).round() as usize) + if *padded { (pl * rate).ceil() as usize + (pr * rate).ceil() as usize } else { 0 };
            if s0.len() != want {
                add("sample-count", format!("{} samples, expected {want}", s0.len()));
            }
            let scales: &[f64] = if thorough { &[0.0, 0.5, -2.0, 1.0, 3.25] } else { &[0.0, 0.5, -2.0, 1.0] };
            let phases: &[f64] = if thorough { &[0.0, 0.25, -0.125, 0.5, 1.0 / 3.0] } else { &[0.0, 0.25, -0.125] };
            let wp: BuiltinWaveform<Partial<Concrete>> = match w.clone().try_evaluate::<Partial<Concrete>, ()>(|r| Ok(Some(r)), |c| Ok(Some(c))) {
                Ok(x) => x,
                Err(_) => {
                    add("partial-conversion", "cannot lift the concrete waveform to its partial form".into());
                    return (true, out);
                }
            };
            for &sc in scales {
                for &ph in phases {
                    let c = CommonBuiltinParameters::<Concrete> { duration, scale: Some(sc), phase: Some(Cycles(ph)), detuning: det };
                    let s = match w.iq_values_at_sample_rate(c, rate) {
                        Ok(s) => vals(s),
                        Err(e) => {
                            add("error-with-scale-phase", format!("{e:?}"));
                            continue;
                        }
                    };
                    let rot = C::cis(2.0 * std::f64::consts::PI * ph);
                    let exp: Vec<C> = s0.iter().map(|z| z * sc * rot).collect();
                    if !close(&exp, &s, 1e-12) {
                        add("linearity", format!("scale={sc} phase={ph}: first sample {:?}, expected {:?}", s.first(), exp.first()));
                    }
                    if sc == 0.0 && s.iter().any(|z| z.norm() != 0.0) {
                        add("zero-scale", format!("{:?}", s.first()));
                    }
                    let known = CommonBuiltinParameters::<Partial<Concrete>> { duration, scale: Some(Some(sc)), phase: Some(Cycles(Some(ph))), detuning: det.map(Some) };
                    match wp.partial_iq_values_at_sample_rate(known, rate) {
                        Ok(IqSamplesOrPlaceholder::Samples(x)) => {
                            if !close(&vals(x), &s, 0.0) {
                                add("partial-known-differs", "partial API with every parameter known gives other samples than the concrete API".into());
                            }
                        }
                        Ok(IqSamplesOrPlaceholder::Placeholder(_)) => add("partial-known-placeholder", "partial API with every parameter known gives a placeholder".into()),
                        Err(e) => add("partial-error", format!("{e:?}")),
                    }
                    for (what, unk) in [
                        ("phase", CommonBuiltinParameters::<Partial<Concrete>> { duration, scale: Some(Some(sc)), phase: Some(Cycles(None)), detuning: det.map(Some) }),
                        ("scale", CommonBuiltinParameters::<Partial<Concrete>> { duration, scale: Some(None), phase: Some(Cycles(Some(ph))), detuning: det.map(Some) }),
                    ] {
                        match wp.partial_iq_values_at_sample_rate(unk, rate) {
                            Ok(IqSamplesOrPlaceholder::Samples(x)) => {
                                let v = vals(x);
                                if !(what == "phase" && sc == 0.0 && v.len() == s.len() && v.iter().all(|z| z.norm() == 0.0)) {
                                    add("partial-unknown-gives-samples", format!("unknown {what} (scale={sc}) still gives samples"));
                                }
                            }
                            Ok(IqSamplesOrPlaceholder::Placeholder(p)) => {
                                if p.sample_count() != s.len() {
                                    add("placeholder-length", format!("unknown {what}: placeholder of {} samples, concrete {}", p.sample_count(), s.len()));
                                }
                            }
                            Err(e) => add("partial-error", format!("{e:?}")),
                        }
                    }
                }
            }
            match (&undetuned, det) {
                (None, None) => undetuned = Some(s0.clone()),
                (Some(u), Some(d)) if d == 0.0 => {
                    if !close(u, &s0, 0.0) {
                        add("zero-detuning-differs", "detuning 0.0 gives other samples than no detuning".into());
                    }
                }
                _ => {}
            }
        }
        (true, out)
    });
    match r {
        Ok(x) => x,
        Err(p) => (false, vec![("panic".into(), p)]),
    }
}

pub static C32: PropDef = PropDef {
    id: "C32",
    level: "exploration",
    engine: "sweep",
    rule: "finite lattice: 9 built-in waveform instances (flat, gaussian, drag_gaussian, erf_square, hermite_gaussian, raised_cosine with rolloff 0 / 0.5 / 1, boxcar_kernel) x sample rate {1, 4, 1e9} x duration k/rate for k = 0..6 (thorough 0..48) x 8 (pad_left, pad_right) pairs in units of 1/rate incl. whole, one-sided fractional and both-sided fractional paddings (padded kinds) x scale {0, 0.5, -2, 1} x phase {0, 0.25, -0.125} (thorough 5 x 5) x detuning {absent, 0, rate/4}, concrete and partial APIs with each of scale / phase known or unknown: sample count, linearity in scale, phase rotation (relative to the samples at the same detuning), zero scale, placeholder length, partial == concrete once known, detuning 0 == no detuning. non-trivial = case that samples successfully",
    assumptions: &["metamorphic oracle (no reference envelope); durations exactly aligned with the sample rate; a lattice, not all reals"],
    run: |ctx| {
        let thorough = ctx.tier == Tier::Thorough;
        let kmax = ctx.tier.pick(6u32, 48);
        for ri in 0..RATES.len() {
            for k in 0..=kmax {
                for pi in 0..PADS.len() {
                    for wi in 0..9 {
                        let padded = matches!(wi, 3 | 5 | 6 | 7);
                        if !padded && pi != 0 {
                            continue;
                        }
                        if !ctx.take(|| json!({"rate_index": ri, "k": k, "pad_index": pi, "waveform_index": wi})) {
                            continue;
                        }
                        let (ok, vs) = c32_check(ri, k, pi, wi, thorough);
                        if ok {
                            ctx.nontrivial(&(ri, k, pi, wi));
                        }
                        ctx.outcome(&format!("{}:{}", ["flat", "gaussian", "drag_gaussian", "erf_square", "hermite_gaussian", "raised_cosine0", "raised_cosine05", "raised_cosine1", "boxcar_kernel"][wi], if ok { "sampled" } else { "rejected" }));
                        // each case samples the concrete API once per scale/phase pair and the partial API three times
                        ctx.evals += if thorough { 25 * 4 } else { 12 * 4 };
                        for (clause, detail) in vs {
                            ctx.report(viol(&clause, format!("C32:{clause}:waveform{wi}"), json!({"rate_index": ri, "k": k, "pad_index": pi, "waveform_index": wi}), detail));
                        }
                    }
                }
            }
        }
    },
    replay: |c: &Value| {
        let g = |k: &str| c[k].as_u64().unwrap_or(0) as usize;
        if g("rate_index") >= RATES.len() || g("pad_index") >= PADS.len() || g("waveform_index") >= 9 {
            return vec![];
        }
        c32_check(g("rate_index"), g("k") as u32, g("pad_index"), g("waveform_index"), true).1.into_iter().map(|(cl, d)| viol(&cl, format!("C32:{cl}:waveform{}", g("waveform_index")), c.clone(), d)).collect()
    },
    caps: (50, 3000),
};
