//! mc — bounded exhaustive model checking of quil-rs against the properties in
//! /verif/properties.jsonl.  See /verif/DESIGN.md.
mod engine;
mod ex;
mod props;
mod refm;
#[allow(dead_code)]
mod util;

use engine::*;

fn usage() -> ! {
    eprintln!("usage: mc run <Cxx> <quick|thorough> | mc replay <file> | mc list");
    std::process::exit(2)
}

fn find(id: &str) -> &'static PropDef {
    props::ALL.iter().find(|p| p.id == id).copied().unwrap_or_else(|| {
        eprintln!("MACHINERY-ERROR: unknown property {id}");
        std::process::exit(2)
    })
}

fn main() {
    let a: Vec<String> = std::env::args().collect();
    if a.len() < 2 {
        usage();
    }
    match a[1].as_str() {
        "list" => {
            for p in props::ALL {
                println!("{} {} {}", p.id, p.level, p.engine);
            }
        }
        "list-json" => {
            let v: Vec<serde_json::Value> = props::ALL.iter().map(|p| serde_json::json!({"id": p.id, "level": p.level, "engine": p.engine, "rule": p.rule, "assumptions": p.assumptions})).collect();
            println!("{}", serde_json::Value::Array(v));
        }
        "run" => {
            if a.len() < 4 {
                usage();
            }
            let def = find(&a[2]);
            std::process::exit(parent_main(def, Tier::parse(&a[3])));
        }
        "worker" | "describe" => {
            // worker <id> <tier> <shard> <nshards> <seed> <skip,csv>   |  describe <id> <tier> <shard> <nshards> <index>
            let def = find(&a[2]);
            let tier = Tier::parse(&a[3]);
            let shard: u64 = a[4].parse().unwrap();
            let nshards: u64 = a[5].parse().unwrap();
            if a[1] == "describe" {
                let idx: u64 = a[6].parse().unwrap();
                worker_main(def, tier, shard, nshards, 0, vec![], Some(idx));
            } else {
                let seed: u64 = a[6].parse().unwrap();
                let skip: Vec<u64> = a.get(7).map(|s| s.split(',').filter_map(|x| x.parse().ok()).collect()).unwrap_or_default();
                worker_main(def, tier, shard, nshards, seed, skip, None);
            }
        }
        "replay" | "replay-quiet" => {
            if a.len() < 3 {
                usage();
            }
            let txt = std::fs::read_to_string(&a[2]).unwrap_or_else(|e| {
                eprintln!("MACHINERY-ERROR: cannot read {}: {e}", a[2]);
                std::process::exit(2)
            });
            let v: serde_json::Value = serde_json::from_str(&txt).unwrap_or_else(|e| {
                eprintln!("MACHINERY-ERROR: {}: {e}", a[2]);
                std::process::exit(2)
            });
            let def = find(v["property"].as_str().unwrap_or(""));
            std::process::exit(replay_main(def, &v, a[1] == "replay-quiet"));
        }
        other => {
            if let Some(code) = props::extra_command(other, &a[2..]) {
                std::process::exit(code);
            }
            usage()
        }
    }
}
