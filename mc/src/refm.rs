//! Reference models ("boring on purpose").  They share only AST types with quil-rs.
use quil_rs::expression::*;
use quil_rs::instruction::*;
use quil_rs::quil::Quil;
use quil_rs::Program;
use std::collections::BTreeSet;

pub type S = BTreeSet<String>;

pub fn fid(f: &FrameIdentifier) -> String {
    f.to_quil_or_debug()
}
fn qset(qs: &[Qubit]) -> BTreeSet<String> {
    qs.iter().map(|q| q.to_quil_or_debug()).collect()
}

/// Frames used / blocked by an instruction per the Quil-T rules quoted in property C26.
#[derive(Default, Debug, Clone, PartialEq)]
pub struct Fr {
    pub used: S,
    pub blocked: S,
    /// is an RF-control instruction (has frame semantics at all)
    pub rf: bool,
    /// is a *timed* instruction (everything RF except RESET)
    pub timed: bool,
}

pub fn ref_frames(p: &Program, i: &Instruction) -> Fr {
    let all: Vec<&FrameIdentifier> = p.frames.get_keys();
    let mut r = Fr::default();
    let shares = |g: &FrameIdentifier, qs: &BTreeSet<String>| g.qubits.iter().any(|q| qs.contains(&q.to_quil_or_debug()));
    let defined = |f: &FrameIdentifier| all.iter().any(|g| *g == f);
    match i {
        Instruction::Pulse(Pulse { blocking, frame, .. })
        | Instruction::Capture(Capture { blocking, frame, .. })
        | Instruction::RawCapture(RawCapture { blocking, frame, .. }) => {
            r.rf = true;
            r.timed = true;
            if defined(frame) {
                r.used.insert(fid(frame));
            }
            if *blocking {
                let qs = qset(&frame.qubits);
                for g in &all {
                    if shares(g, &qs) && *g != frame {
                        r.blocked.insert(fid(g));
                    }
                }
            }
        }
        Instruction::Delay(Delay { qubits, frame_names, .. }) => {
            r.rf = true;
            r.timed = true;
            let qs = qset(qubits);
            for g in &all {
                if qset(&g.qubits) == qs && (frame_names.is_empty() || frame_names.contains(&g.name)) {
                    r.used.insert(fid(g));
                }
            }
        }
        Instruction::Fence(Fence { qubits }) => {
            r.rf = true;
            r.timed = true;
            let qs = qset(qubits);
            for g in &all {
                if qubits.is_empty() || shares(g, &qs) {
                    r.used.insert(fid(g));
                }
            }
        }
        Instruction::Reset(Reset { qubit: Some(q) }) => {
            r.rf = true;
            r.timed = false;
            let qs = qset(std::slice::from_ref(q));
            for g in &all {
                if qset(&g.qubits) == qs {
                    r.used.insert(fid(g));
                } else if shares(g, &qs) {
                    r.blocked.insert(fid(g));
                }
            }
        }
        Instruction::SetFrequency(SetFrequency { frame, .. })
        | Instruction::SetPhase(SetPhase { frame, .. })
        | Instruction::SetScale(SetScale { frame, .. })
        | Instruction::ShiftFrequency(ShiftFrequency { frame, .. })
        | Instruction::ShiftPhase(ShiftPhase { frame, .. }) => {
            r.rf = true;
            r.timed = true;
            if defined(frame) {
                r.used.insert(fid(frame));
            }
        }
        Instruction::SwapPhases(SwapPhases { frame_1, frame_2 }) => {
            r.rf = true;
            r.timed = true;
            for f in [frame_1, frame_2] {
                if defined(f) {
                    r.used.insert(fid(f));
                }
            }
        }
        _ => {}
    }
    r
}

/// one instruction uses a frame the other uses or blocks
pub fn frame_conflict(a: &Fr, b: &Fr) -> bool {
    a.used.iter().any(|f| b.used.contains(f) || b.blocked.contains(f)) || b.used.iter().any(|f| a.blocked.contains(f))
}

// ---------------------------------------------------------------------------------------------
// memory

#[derive(Default, Debug, Clone, PartialEq)]
pub struct Mem {
    pub r: S,
    pub w: S,
    pub c: S,
}

/// Address leaves of an expression in left-to-right order (independent recursive walk).
pub fn expr_refs(e: &Expression, out: &mut Vec<MemoryReference>) {
    match e {
        Expression::Address(m) => out.push(m.clone()),
        Expression::FunctionCall(f) => expr_refs(&f.expression, out),
        Expression::Infix(i) => {
            expr_refs(&i.left, out);
            expr_refs(&i.right, out);
        }
        Expression::Prefix(p) => expr_refs(&p.expression, out),
        Expression::Number(_) | Expression::PiConstant() | Expression::Variable(_) => {}
    }
}
fn expr_regions(e: &Expression, s: &mut S) {
    let mut v = vec![];
    expr_refs(e, &mut v);
    for m in v {
        s.insert(m.name);
    }
}
fn waveform_regions(w: &WaveformInvocation, s: &mut S) {
    for (_, e) in w.parameters.iter() {
        expr_regions(e, s);
    }
}

/// Reads / writes / captures of an executable instruction per property C27 (CALL excluded: see
/// `ref_mem_call`).  Returns None for instructions outside the statement (definitions).
pub fn ref_mem(i: &Instruction) -> Option<Mem> {
    let mut m = Mem::default();
    let one = |r: &MemoryReference| r.name.clone();
    match i {
        Instruction::Arithmetic(Arithmetic { destination, source, .. }) => {
            m.r.insert(one(destination));
            m.w.insert(one(destination));
            if let ArithmeticOperand::MemoryReference(s) = source {
                m.r.insert(one(s));
            }
        }
        Instruction::BinaryLogic(BinaryLogic { destination, source, .. }) => {
            m.r.insert(one(destination));
            m.w.insert(one(destination));
            if let BinaryOperand::MemoryReference(s) = source {
                m.r.insert(one(s));
            }
        }
        Instruction::UnaryLogic(UnaryLogic { operand, .. }) => {
            m.r.insert(one(operand));
            m.w.insert(one(operand));
        }
        Instruction::Move(Move { destination, source }) => {
            m.w.insert(one(destination));
            if let ArithmeticOperand::MemoryReference(s) = source {
                m.r.insert(one(s));
            }
        }
        Instruction::Convert(Convert { destination, source }) => {
            m.w.insert(one(destination));
            m.r.insert(one(source));
        }
        Instruction::Exchange(Exchange { left, right }) => {
            for x in [left, right] {
                m.r.insert(one(x));
                m.w.insert(one(x));
            }
        }
        Instruction::Comparison(Comparison { destination, lhs, rhs, .. }) => {
            m.w.insert(one(destination));
            m.r.insert(one(lhs));
            if let ComparisonOperand::MemoryReference(s) = rhs {
                m.r.insert(one(s));
            }
        }
        Instruction::Load(Load { destination, source, offset }) => {
            m.w.insert(one(destination));
            m.r.insert(source.clone());
            m.r.insert(one(offset));
        }
        Instruction::Store(Store { destination, offset, source }) => {
            m.w.insert(destination.clone());
            m.r.insert(one(offset));
            if let ArithmeticOperand::MemoryReference(s) = source {
                m.r.insert(one(s));
            }
        }
        Instruction::JumpWhen(JumpWhen { condition, .. }) | Instruction::JumpUnless(JumpUnless { condition, .. }) => {
            m.r.insert(one(condition));
        }
        Instruction::Delay(Delay { duration: e, .. })
        | Instruction::SetPhase(SetPhase { phase: e, .. })
        | Instruction::SetScale(SetScale { scale: e, .. })
        | Instruction::ShiftPhase(ShiftPhase { phase: e, .. })
        | Instruction::SetFrequency(SetFrequency { frequency: e, .. })
        | Instruction::ShiftFrequency(ShiftFrequency { frequency: e, .. }) => expr_regions(e, &mut m.r),
        Instruction::Pulse(Pulse { waveform, .. }) => waveform_regions(waveform, &mut m.r),
        Instruction::Gate(g) => {
            for e in &g.parameters {
                expr_regions(e, &mut m.r);
            }
        }
        Instruction::Capture(Capture { memory_reference, waveform, .. }) => {
            waveform_regions(waveform, &mut m.r);
            m.c.insert(one(memory_reference));
        }
        Instruction::RawCapture(RawCapture { duration, memory_reference, .. }) => {
            expr_regions(duration, &mut m.r);
            m.c.insert(one(memory_reference));
        }
        Instruction::Measurement(Measurement { target, .. }) => {
            if let Some(t) = target {
                m.c.insert(one(t));
            }
        }
        Instruction::Fence(_)
        | Instruction::Reset(_)
        | Instruction::SwapPhases(_)
        | Instruction::Nop()
        | Instruction::Halt()
        | Instruction::Wait()
        | Instruction::Label(_)
        | Instruction::Jump(_)
        | Instruction::Pragma(_) => {}
        _ => return None,
    }
    Some(m)
}

/// at least one of the two writes/captures a region the other touches
pub fn mem_conflict(a: &Mem, b: &Mem) -> bool {
    let wa: S = a.w.union(&a.c).cloned().collect();
    let wb: S = b.w.union(&b.c).cloned().collect();
    wa.iter().any(|x| wb.contains(x) || b.r.contains(x)) || wb.iter().any(|x| a.r.contains(x))
}
