#!/bin/bash
# usage: tools_seeded_checks.sh <seed-dir-name> <logfile-name> <Cxx>... : apply a stored seeded patch to /repo,
# run the quick checks, restore /repo; appends to /verif/seeded/<seed>/<logfile-name>
d=/verif/seeded/$1; log=$d/$2; shift 2
( flock 9
  git -C /repo diff --quiet || { echo "repo dirty" >> $log; exit 2; }
  git -C /repo apply $d/patch.diff || { echo "patch does not apply" >> $log; exit 2; }
  for c in "$@"; do echo "== check $c quick (patched /repo)" >> $log; (cd /verif && timeout 900 ./check $c quick 2>&1 | cut -c1-300 | head -14 >> $log; echo "exit=${PIPESTATUS[0]}" >> $log); done
  git -C /repo checkout -- .
) 9>/tmp/repo-patch.lock
