#!/bin/bash
# usage: tools_determinism.sh [Cxx ...]   (default: all 35)
# Runs every quick check twice and compares what the evidence says was covered (evaluations,
# distinct non-trivial cases, states, transitions, outcome histogram, violation classes).  A check
# whose two runs differ does not own all of its nondeterminism.  Evidence files are left as written
# by the second run.
cd "$(dirname "$0")"
ids="$@"; [ -z "$ids" ] && ids=$(seq -f "C%02g" 1 35)
rc=0
for c in $ids; do
  ./check $c quick > /dev/null 2>&1; r1=$?
  a=$(python3 -c "
import json;e=json.load(open('evidence/$c.json'));c=e['coverage']
print(json.dumps([c.get(k) for k in ('evaluations','distinct_nontrivial','states','transitions','outcomes','known_findings_seen','violation_classes')]+[e.get('violations')],sort_keys=True))")
  ./check $c quick > /dev/null 2>&1; r2=$?
  b=$(python3 -c "
import json;e=json.load(open('evidence/$c.json'));c=e['coverage']
print(json.dumps([c.get(k) for k in ('evaluations','distinct_nontrivial','states','transitions','outcomes','known_findings_seen','violation_classes')]+[e.get('violations')],sort_keys=True))")
  if [ "$a" == "$b" ] && [ $r1 == $r2 ]; then echo "$c same exit=$r1"; else echo "$c DIFFERENT exit=$r1/$r2"; echo "  $a" | cut -c1-300; echo "  $b" | cut -c1-300; rc=1; fi
done
exit $rc
