#!/bin/bash
# Re-introduces every repaired defect, one at a time, and expects the listed check to report it.
# Output: /verif/seeded/reverts.log (one REVERT line per (commit, check)).
out=/verif/seeded/reverts.log; : > $out
while read sha checks; do
  [ -z "$sha" ] && continue
  /verif/tools_revert_check.sh $sha $checks 2>&1 | grep -E "^REVERT|^VIOLATION|MACHINERY" | awk '!seen[$0]++' | head -8 >> $out
done <<'LIST'
77429a9 C28
0af0287 C12
3668e73 C12
9694ef3 C12
cf9ee6a C03 C02
734535e C01 C05
aee7192 C01
969f627 C02 C04
1d0a24c C02
a5d9ae8 C07 C04 C02
1b21465 C04
e01d41b C06
a9511fa C08
a0d23fa C09
ecc4c99 C10
666537d C34 C10
a01d2b5 C14
2e67899 C15
f0bff9b+ba78243 C17
e88ed9d C19
f3ff6ae C33
c069399 C18
ca3119a C07
f3e91ed C03 C12
LIST
grep -c "exit=1" $out; grep "exit=0\|exit=2" $out
