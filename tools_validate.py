#!/usr/bin/env python3
"""validate MANIFEST.json and every evidence file against the schemas in /root/.vp"""
import json, sys, glob
import jsonschema
ok = True
def val(doc, schema, name):
    global ok
    try:
        jsonschema.validate(json.load(open(doc)), json.load(open(schema)))
        print("valid", name)
    except Exception as e:
        ok = False
        print("INVALID", name, str(e)[:300])
val('/verif/MANIFEST.json', '/root/.vp/MANIFEST.schema.json', 'MANIFEST.json')
for f in sorted(glob.glob('/verif/evidence/*.json')):
    val(f, '/root/.vp/EVIDENCE.schema.json', f)
sys.exit(0 if ok else 1)
